//! C12 (second half) — the rest of the public `Wad` API, judged against exact `num-bigint` results.
//!
//! `c12.rs` covers `checked_mul`, `checked_div`, `from_ratio`, `pow`, `checked_pow`.  This sub-check
//! (`wad-api`) executes every other public function of `math/wad.rs`: `from_raw`/`raw`, `from_integer`,
//! `to_integer`, `from_token_amount`, `from_price`, `to_token_amount`, `min`, `max` (and the derived
//! ordering/equality), `checked_add`, `checked_sub`, `checked_mul_int`, `checked_div_int`, `abs` and the
//! operator impls `Add`, `Sub`, `Mul`, `Div`, `Neg`, `Mul<i128>`, `i128 * Wad`, `Div<i128>`.
//!
//! Oracle, from the doc comments of wad.rs only:
//! * every value handed back must be the exact rational result truncated toward zero ("All arithmetic
//!   operations truncate toward zero"; `to_integer`, `from_token_amount`, `to_token_amount` say so too);
//! * constructors/conversions with an `# Errors` section (`from_integer`, `from_token_amount`,
//!   `from_price`, `to_token_amount`) fail exactly when "the (scaling) multiplication overflows i128",
//!   i.e. exactly when the exact result does not fit;
//! * `checked_add`/`checked_sub`/`checked_mul_int` "return None on overflow": None exactly when the exact
//!   result does not fit, never a panic; `checked_div_int` "returns None on division by zero";
//! * the operators panic exactly when the corresponding checked variant returns None and otherwise return
//!   the same value (both are compared with the same exact result);
//! * `from_price` "is an alias for from_token_amount": identical outcome;
//! * round-trips: `to_integer(from_integer(n)) == n`, `to_token_amount(from_token_amount(a, d), d) == a`
//!   (d <= 18) and `from_token_amount(to_token_amount(w, d), d) == w` (d >= 18), whenever the first step
//!   succeeds.
//!
//! NOT asserted (the documentation does not fix the behaviour; counted as `*.open.*` classes, and a value
//! handed back must still be the exact one whenever that fits):
//! * `Wad * Wad` / `Wad / Wad` when the *intermediate* product `a*b` resp. `a*10^18` leaves i128 although
//!   the final result fits (the operators compute natively; `checked_mul`/`checked_div` widen to I256);
//! * `i128::MIN` under `abs` / `Neg`, and `i128::MIN / -1` under `checked_div_int` / `Div<i128>`;
//! * token decimals above 56 (the library refuses a scaling factor above 10^38 although
//!   `from_token_amount` would mathematically truncate to 0 and `to_token_amount` of 0 would be 0).
//!
//! Everything is a direct native library call; panics (contract errors raised through the Env as well as
//! plain Rust arithmetic panics) are observed with `catch_unwind`.

use crate::big;
use crate::engine::*;
use crate::envx;
use crate::gen;
use num_bigint::BigInt;
use num_traits::{Signed, ToPrimitive, Zero};
use proptest::prelude::*;
use serde::{Deserialize, Serialize};
use soroban_sdk::Env;
use std::cmp::Ordering;
use std::collections::BTreeMap;
use std::panic::{catch_unwind, AssertUnwindSafe};
use stellar_contract_utils::math::wad::{Wad, WAD_SCALE};

// ------------------------------------------------------------------ helpers

#[derive(Default)]
struct Tally {
    m: BTreeMap<&'static str, u64>,
}
impl Tally {
    fn add(&mut self, k: &'static str) {
        *self.m.entry(k).or_insert(0) += 1;
    }
    fn flush(&self, ctx: &mut Ctx) {
        for (k, v) in &self.m {
            ctx.class_n(k, *v);
        }
    }
}

type G<T> = Result<T, ()>;

fn guarded<T>(f: impl FnOnce() -> T) -> G<T> {
    catch_unwind(AssertUnwindSafe(f)).map_err(|_| ())
}

fn two_pow(k: u32) -> BigInt {
    BigInt::from(1) << k
}

/// within 2^64 of an i128 bound, on either side of it
fn near_bound(q: &BigInt) -> bool {
    let w = two_pow(64);
    (q - BigInt::from(i128::MAX)).abs() <= w || (q - BigInt::from(i128::MIN)).abs() <= w
}

/// an evaluation is non-trivial when its exact result is within 2^64 of an i128 bound, on either side (counted)
fn edge(x: &BigInt, near_cls: &'static str, t: &mut Tally) -> bool {
    if near_bound(x) {
        t.add(near_cls);
        true
    } else {
        false
    }
}

/// classes of an input whose behaviour the documentation leaves open
#[derive(Clone, Copy)]
struct Oc {
    panicked: &'static str,
    none: &'static str,
    returned: &'static str,
}

enum Exp<'a> {
    /// documented: the exact result when it fits i128, failure (panic / None) when it does not
    Exact(&'a BigInt),
    /// documented failure
    Fail(&'static str),
    /// not fixed by the documentation: counted; a value handed back must be the exact one when that fits
    Open(&'a BigInt, Oc),
}

/// a function that reports failure by panicking
fn judge_pan(api: &str, got: G<i128>, exp: Exp, input: &dyn Fn() -> String, t: &mut Tally) -> R {
    match exp {
        Exp::Exact(x) => match (got, x.to_i128()) {
            (Ok(v), Some(w)) => ensure!(v == w, format!("C12/wad.{api}/wrong-value"), "returned {v}, exact result is {w}; {}", input()),
            (Ok(v), None) => bail!(format!("C12/wad.{api}/returned-but-must-fail:no-fit"), "returned {v}, the exact result {x} does not fit; {}", input()),
            (Err(()), Some(w)) => bail!(format!("C12/wad.{api}/failed-but-fits"), "failed although the exact result {w} fits; {}", input()),
            (Err(()), None) => {}
        },
        Exp::Fail(why) => {
            if let Ok(v) = got {
                bail!(format!("C12/wad.{api}/returned-but-must-fail:{why}"), "returned {v} but must fail ({why}); {}", input());
            }
        }
        Exp::Open(x, oc) => match got {
            Err(()) => t.add(oc.panicked),
            Ok(v) => {
                t.add(oc.returned);
                if let Some(w) = x.to_i128() {
                    ensure!(v == w, format!("C12/wad.{api}/wrong-value"), "returned {v}, exact result is {w}; {}", input());
                }
            }
        },
    }
    Ok(())
}

/// a function that reports failure by returning None
fn judge_chk(api: &str, got: G<Option<i128>>, exp: Exp, input: &dyn Fn() -> String, t: &mut Tally) -> R {
    match exp {
        Exp::Exact(x) => match (got, x.to_i128()) {
            (Err(()), _) => bail!(format!("C12/wad.{api}/panicked"), "checked variant panicked; {}", input()),
            (Ok(Some(v)), Some(w)) => ensure!(v == w, format!("C12/wad.{api}/wrong-value"), "returned {v}, exact result is {w}; {}", input()),
            (Ok(Some(v)), None) => bail!(format!("C12/wad.{api}/value-but-must-fail:no-fit"), "returned {v}, the exact result {x} does not fit; {}", input()),
            (Ok(None), Some(w)) => bail!(format!("C12/wad.{api}/none-but-fits"), "returned None although the exact result {w} fits; {}", input()),
            (Ok(None), None) => {}
        },
        Exp::Fail(why) => match got {
            Err(()) => bail!(format!("C12/wad.{api}/panicked"), "checked variant panicked ({why}); {}", input()),
            Ok(Some(v)) => bail!(format!("C12/wad.{api}/value-but-must-fail:{why}"), "returned {v} but must report no value ({why}); {}", input()),
            Ok(None) => {}
        },
        Exp::Open(x, oc) => match got {
            Err(()) => t.add(oc.panicked),
            Ok(None) => t.add(oc.none),
            Ok(Some(v)) => {
                t.add(oc.returned);
                if let Some(w) = x.to_i128() {
                    ensure!(v == w, format!("C12/wad.{api}/wrong-value"), "returned {v}, exact result is {w}; {}", input());
                }
            }
        },
    }
    Ok(())
}

const OC_ABS: Oc = Oc { panicked: "wadx.abs.min.open.panicked", none: "wadx.abs.min.open.none", returned: "wadx.abs.min.open.returned" };
const OC_NEG: Oc = Oc { panicked: "wadx.neg.min.open.panicked", none: "wadx.neg.min.open.none", returned: "wadx.neg.min.open.returned" };
const OC_DIVI: Oc =
    Oc { panicked: "wadx.op_div_int.min_by_neg1.open.panicked", none: "wadx.op_div_int.min_by_neg1.open.none", returned: "wadx.op_div_int.min_by_neg1.open.returned" };
const OC_MUL: Oc = Oc { panicked: "wadx.op_mul.phantom.open.panicked", none: "wadx.op_mul.phantom.open.none", returned: "wadx.op_mul.phantom.open.returned" };
const OC_DIV: Oc = Oc { panicked: "wadx.op_div.phantom.open.panicked", none: "wadx.op_div.phantom.open.none", returned: "wadx.op_div.phantom.open.returned" };
const OC_FTOK: Oc = Oc {
    panicked: "wadx.from_token.decimals_gt_56.open.panicked",
    none: "wadx.from_token.decimals_gt_56.open.none",
    returned: "wadx.from_token.decimals_gt_56.open.returned",
};
const OC_FPRICE: Oc = Oc {
    panicked: "wadx.from_price.decimals_gt_56.open.panicked",
    none: "wadx.from_price.decimals_gt_56.open.none",
    returned: "wadx.from_price.decimals_gt_56.open.returned",
};
const OC_TTOK: Oc = Oc {
    panicked: "wadx.to_token.zero_decimals_gt_56.open.panicked",
    none: "wadx.to_token.zero_decimals_gt_56.open.none",
    returned: "wadx.to_token.zero_decimals_gt_56.open.returned",
};

// ------------------------------------------------------------------ case

/// first operand (raw value of the Wad / integer / token amount)
#[derive(Clone, Debug, Serialize, Deserialize)]
pub enum ASel {
    Raw {
        #[serde(with = "crate::gen::i128_str")]
        v: i128,
    },
    /// ±(i128::MAX / 10^18 + delta): fit boundary of `from_integer` and of the native product a*10^18 in `Wad / Wad`
    ScaleEdge { neg: bool, delta: i8 },
    /// ±(i128::MAX / 10^|18-d| + delta): fit boundary of `from_token_amount` (d < 18) and `to_token_amount` (d > 18)
    TokenEdge { neg: bool, delta: i8 },
}

/// second operand (other Wad / integer factor / integer divisor), relative to the first one
#[derive(Clone, Debug, Serialize, Deserialize)]
pub enum BSel {
    Raw {
        #[serde(with = "crate::gen::i128_str")]
        v: i128,
    },
    /// b = a + delta (ties of min / max / ordering, differences around zero, quotients around one)
    Near { delta: i8 },
    /// a + b = bound + delta
    SumEdge { min_side: bool, delta: i8 },
    /// a - b = bound + delta
    DiffEdge { min_side: bool, delta: i8 },
    /// b = trunc(bound / a) + delta: a*b next to an i128 bound (`checked_mul_int`, `Wad * i128`, native product of `Wad * Wad`)
    ProdEdge { min_side: bool, delta: i8 },
    /// b = trunc(bound * 10^18 / a) + delta: a*b/10^18 next to an i128 bound
    ScaledProdEdge { min_side: bool, delta: i8 },
}

#[derive(Clone, Debug, Serialize, Deserialize)]
pub struct Item {
    pub a: ASel,
    pub b: BSel,
    /// token / price decimals
    pub d: u8,
}

#[derive(Clone, Debug, Serialize, Deserialize)]
pub struct Case {
    pub items: Vec<Item>,
}

fn pow10_i128(k: u32) -> Option<i128> {
    10i128.checked_pow(k)
}

impl ASel {
    fn resolve(&self, d: u8) -> i128 {
        match self {
            ASel::Raw { v } => *v,
            ASel::ScaleEdge { neg, delta } => {
                let v = i128::MAX / WAD_SCALE + *delta as i128;
                if *neg {
                    -v
                } else {
                    v
                }
            }
            ASel::TokenEdge { neg, delta } => {
                let diff = (d as i32 - 18).unsigned_abs();
                // no boundary for d = 18 / factors beyond i128: stay next to the i128 bound itself
                let base = match pow10_i128(diff) {
                    Some(f) if diff >= 1 => i128::MAX / f,
                    _ => i128::MAX - 200,
                };
                let v = base + *delta as i128;
                if *neg {
                    -v
                } else {
                    v
                }
            }
        }
    }
}

fn bound(min_side: bool) -> BigInt {
    BigInt::from(if min_side { i128::MIN } else { i128::MAX })
}

impl BSel {
    /// None: the construction does not yield an i128
    fn resolve(&self, a: i128) -> Option<i128> {
        let ba = big::b(a);
        match self {
            BSel::Raw { v } => Some(*v),
            BSel::Near { delta } => a.checked_add(*delta as i128),
            BSel::SumEdge { min_side, delta } => (bound(*min_side) + BigInt::from(*delta) - ba).to_i128(),
            BSel::DiffEdge { min_side, delta } => (ba - bound(*min_side) - BigInt::from(*delta)).to_i128(),
            BSel::ProdEdge { min_side, delta } => {
                if a == 0 {
                    return None;
                }
                (big::div_trunc(&bound(*min_side), &ba) + BigInt::from(*delta)).to_i128()
            }
            BSel::ScaledProdEdge { min_side, delta } => {
                if a == 0 {
                    return None;
                }
                (big::div_trunc(&(bound(*min_side) * BigInt::from(WAD_SCALE)), &ba) + BigInt::from(*delta)).to_i128()
            }
        }
    }
}

/// the boundary lattice (0, ±1, ±10^18, ±2^63, ±2^64, MIN, MIN+1, MAX-1, MAX and neighbours) mixed with the
/// 10^18 neighbourhood, small integers and random values of every bit length, both signs
fn raw_operand() -> BoxedStrategy<i128> {
    prop_oneof![
        4 => proptest::sample::select(gen::i128_lattice()),
        2 => (-6i128..=6, -3i128..=3).prop_map(|(k, dl)| k * WAD_SCALE + dl),
        1 => (-2000i128..=2000).prop_map(|m| m * (WAD_SCALE / 1000)),
        5 => gen::i128_anybits(),
        1 => any::<i128>(),
        2 => -12i128..=12,
        1 => (0u32..=38, -2i128..=2, any::<bool>()).prop_map(|(k, dl, neg)| {
            let v = 10i128.pow(k) + dl;
            if neg { -v } else { v }
        }),
    ]
    .boxed()
}

fn asel() -> BoxedStrategy<ASel> {
    prop_oneof![
        10 => raw_operand().prop_map(|v| ASel::Raw { v }),
        2 => (any::<bool>(), -3i8..=3).prop_map(|(neg, delta)| ASel::ScaleEdge { neg, delta }),
        3 => (any::<bool>(), -3i8..=3).prop_map(|(neg, delta)| ASel::TokenEdge { neg, delta }),
    ]
    .boxed()
}

fn bsel() -> BoxedStrategy<BSel> {
    prop_oneof![
        8 => raw_operand().prop_map(|v| BSel::Raw { v }),
        2 => proptest::sample::select(vec![0i128, 1, -1]).prop_map(|v| BSel::Raw { v }),
        1 => (-2i8..=2).prop_map(|delta| BSel::Near { delta }),
        2 => (any::<bool>(), -3i8..=3).prop_map(|(min_side, delta)| BSel::SumEdge { min_side, delta }),
        2 => (any::<bool>(), -3i8..=3).prop_map(|(min_side, delta)| BSel::DiffEdge { min_side, delta }),
        3 => (any::<bool>(), -3i8..=3).prop_map(|(min_side, delta)| BSel::ProdEdge { min_side, delta }),
        1 => (any::<bool>(), -3i8..=3).prop_map(|(min_side, delta)| BSel::ScaledProdEdge { min_side, delta }),
    ]
    .boxed()
}

fn decimals() -> BoxedStrategy<u8> {
    prop_oneof![
        10 => 0u8..=40,
        3 => 15u8..=21,
        2 => proptest::sample::select(vec![41u8, 45, 50, 54, 55, 56, 57, 58, 60, 74, 75, 100, 127, 128, 200, 254, 255]),
        1 => any::<u8>(),
    ]
    .boxed()
}

pub fn strategy(_tier: Tier) -> BoxedStrategy<Case> {
    proptest::collection::vec((asel(), bsel(), decimals()).prop_map(|(a, b, d)| Item { a, b, d }), 1..=24).prop_map(|items| Case { items }).boxed()
}

// ------------------------------------------------------------------ evaluation

/// All functions on one (a, b, d).  Returns whether the item satisfies the non-triviality rule.
fn eval_item(e: &Env, a: i128, b: i128, d: u8, t: &mut Tally) -> Result<bool, Violation> {
    let s = BigInt::from(WAD_SCALE);
    let (ba, bb) = (big::b(a), big::b(b));
    let (wa, wb) = (Wad::from_raw(a), Wad::from_raw(b));
    let in1 = || format!("a={a}");
    let in2 = || format!("a={a} b={b}");
    let ind = || format!("a={a} decimals={d}");
    let mut nt = false;
    // ---- from_raw / raw
    ensure!(wa.raw() == a, "C12/wad.from_raw/raw-differs", "Wad::from_raw({a}).raw() = {}", wa.raw());

    // ---- from_integer (+ round-trip through to_integer)
    {
        let x = &ba * &s;
        let got = guarded(|| Wad::from_integer(e, a).raw());
        judge_pan("from_integer", got, Exp::Exact(&x), &in1, t)?;
        t.add(if x.to_i128().is_some() { "wadx.from_integer.ok" } else { "wadx.from_integer.overflow" });
        nt |= edge(&x, "wadx.from_integer.near_bound", t);
        if let Ok(r) = got {
            let back = guarded(|| Wad::from_raw(r).to_integer());
            ensure!(back == Ok(a), "C12/wad.to_integer/roundtrip-from_integer", "to_integer(from_integer({a})) = {:?}", back);
            t.add("wadx.roundtrip.integer");
        }
    }

    // ---- to_integer: truncates toward zero, cannot fail
    {
        let x = big::div_trunc(&ba, &s);
        let got = guarded(|| wa.to_integer());
        judge_pan("to_integer", got, Exp::Exact(&x), &in1, t)?;
        if a < 0 && !(&ba % &s).is_zero() {
            t.add("wadx.to_integer.neg_inexact");
        }
    }

    // ---- abs / Neg
    {
        let x = ba.abs();
        let got = guarded(|| wa.abs().raw());
        let y = -&ba;
        let gneg = guarded(|| (-wa).raw());
        if a == i128::MIN {
            judge_pan("abs", got, Exp::Open(&x, OC_ABS), &in1, t)?;
            judge_pan("op_neg", gneg, Exp::Open(&y, OC_NEG), &in1, t)?;
            t.add("wadx.abs_neg.min");
            nt = true;
        } else {
            judge_pan("abs", got, Exp::Exact(&x), &in1, t)?;
            judge_pan("op_neg", gneg, Exp::Exact(&y), &in1, t)?;
            if a < 0 {
                t.add("wadx.abs.negative");
            }
        }
    }

    // ---- min / max / derived ordering and equality
    {
        let gmin = guarded(|| wa.min(wb).raw());
        judge_pan("min", gmin, Exp::Exact(&big::b(a.min(b))), &in2, t)?;
        let gmax = guarded(|| wa.max(wb).raw());
        judge_pan("max", gmax, Exp::Exact(&big::b(a.max(b))), &in2, t)?;
        let ord = guarded(|| (wa.cmp(&wb), wa.partial_cmp(&wb), wa == wb));
        ensure!(ord == Ok((a.cmp(&b), Some(a.cmp(&b)), a == b)), "C12/wad.ord/differs-from-numeric-order", "cmp/partial_cmp/eq = {:?}; {}", ord, in2());
        match a.cmp(&b) {
            Ordering::Less => t.add("wadx.ord.lt"),
            Ordering::Equal => t.add("wadx.ord.eq"),
            Ordering::Greater => t.add("wadx.ord.gt"),
        }
        if (a < 0) != (b < 0) {
            t.add("wadx.ord.mixed_signs");
        }
    }

    // ---- checked_add / Add, checked_sub / Sub
    {
        let x = &ba + &bb;
        let c = guarded(|| wa.checked_add(wb).map(|w| w.raw()));
        judge_chk("checked_add", c, Exp::Exact(&x), &in2, t)?;
        let o = guarded(|| (wa + wb).raw());
        judge_pan("op_add", o, Exp::Exact(&x), &in2, t)?;
        t.add(if x.to_i128().is_some() { "wadx.add.ok" } else { "wadx.add.overflow" });
        nt |= edge(&x, "wadx.add.near_bound", t);

        let y = &ba - &bb;
        let c = guarded(|| wa.checked_sub(wb).map(|w| w.raw()));
        judge_chk("checked_sub", c, Exp::Exact(&y), &in2, t)?;
        let o = guarded(|| (wa - wb).raw());
        judge_pan("op_sub", o, Exp::Exact(&y), &in2, t)?;
        t.add(if y.to_i128().is_some() { "wadx.sub.ok" } else { "wadx.sub.overflow" });
        nt |= edge(&y, "wadx.sub.near_bound", t);
    }

    // ---- checked_mul_int / Wad * i128 / i128 * Wad   (no WAD scaling)
    let prod = &ba * &bb;
    {
        let c = guarded(|| wa.checked_mul_int(b).map(|w| w.raw()));
        judge_chk("checked_mul_int", c, Exp::Exact(&prod), &in2, t)?;
        let o = guarded(|| (wa * b).raw());
        judge_pan("op_mul_int", o, Exp::Exact(&prod), &in2, t)?;
        let o = guarded(|| (b * wa).raw());
        judge_pan("op_int_mul", o, Exp::Exact(&prod), &in2, t)?;
        t.add(if prod.to_i128().is_some() { "wadx.mul_int.ok" } else { "wadx.mul_int.overflow" });
        nt |= edge(&prod, "wadx.mul_int.near_bound", t);
    }

    // ---- checked_div_int / Wad / i128   (no WAD scaling, truncation toward zero)
    {
        let c = guarded(|| wa.checked_div_int(b).map(|w| w.raw()));
        let o = guarded(|| (wa / b).raw());
        if b == 0 {
            judge_chk("checked_div_int", c, Exp::Fail("zero-den"), &in2, t)?;
            judge_pan("op_div_int", o, Exp::Fail("zero-den"), &in2, t)?;
            t.add("wadx.div_int.zero_den");
            nt = true;
        } else {
            let x = big::div_trunc(&ba, &bb);
            if a == i128::MIN && b == -1 {
                // quotient 2^127 does not fit: a checked divide of the Wad type reports no value (C12: "no value exactly when
                // it does not fit (or the divisor is zero)"); the pinned tree panicked here - see KNOWN_FINDINGS.txt (fixed)
                judge_chk("checked_div_int", c, Exp::Exact(&x), &in2, t)?;
                judge_pan("op_div_int", o, Exp::Open(&x, OC_DIVI), &in2, t)?;
                t.add("wadx.div_int.min_by_neg1");
                nt = true;
            } else {
                judge_chk("checked_div_int", c, Exp::Exact(&x), &in2, t)?;
                judge_pan("op_div_int", o, Exp::Exact(&x), &in2, t)?;
                t.add("wadx.div_int.value");
                if !(&ba % &bb).is_zero() && (a < 0) != (b < 0) {
                    t.add("wadx.div_int.neg_inexact");
                }
            }
        }
    }

    // ---- Wad * Wad : trunc(a*b / 10^18), computed natively by the library
    {
        let x = big::div_trunc(&prod, &s);
        let o = guarded(|| (wa * wb).raw());
        if prod.to_i128().is_some() {
            judge_pan("op_mul", o, Exp::Exact(&x), &in2, t)?;
            t.add("wadx.op_mul.native");
            if near_bound(&prod) {
                t.add("wadx.op_mul.native.product_near_bound");
                nt = true;
            }
            if prod.is_negative() && !(&prod % &s).is_zero() {
                t.add("wadx.op_mul.neg_inexact");
            }
        } else if x.to_i128().is_some() {
            // checked_mul would return the value (I256 path); the operator's behaviour is not documented
            judge_pan("op_mul", o, Exp::Open(&x, OC_MUL), &in2, t)?;
            t.add("wadx.op_mul.phantom");
            if near_bound(&prod) {
                t.add("wadx.op_mul.phantom.product_near_bound");
                nt = true;
            }
        } else {
            judge_pan("op_mul", o, Exp::Exact(&x), &in2, t)?;
            t.add("wadx.op_mul.no_fit");
            nt |= edge(&x, "wadx.op_mul.no_fit.near_bound", t);
        }
    }

    // ---- Wad / Wad : trunc(a*10^18 / b)
    {
        let o = guarded(|| (wa / wb).raw());
        if b == 0 {
            judge_pan("op_div", o, Exp::Fail("zero-den"), &in2, t)?;
            t.add("wadx.op_div.zero_den");
        } else {
            let p = &ba * &s;
            let x = big::div_trunc(&p, &bb);
            if p.to_i128().is_some() {
                judge_pan("op_div", o, Exp::Exact(&x), &in2, t)?;
                t.add("wadx.op_div.native");
                if near_bound(&p) {
                    t.add("wadx.op_div.native.product_near_bound");
                    nt = true;
                }
                if !(&p % &bb).is_zero() && p.is_negative() != bb.is_negative() {
                    t.add("wadx.op_div.neg_inexact");
                }
            } else if x.to_i128().is_some() {
                judge_pan("op_div", o, Exp::Open(&x, OC_DIV), &in2, t)?;
                t.add("wadx.op_div.phantom");
                if near_bound(&p) {
                    t.add("wadx.op_div.phantom.product_near_bound");
                    nt = true;
                }
            } else {
                judge_pan("op_div", o, Exp::Exact(&x), &in2, t)?;
                t.add("wadx.op_div.no_fit");
                nt |= edge(&x, "wadx.op_div.no_fit.near_bound", t);
            }
        }
    }

    // ---- from_token_amount / from_price
    let from_tok = guarded(|| Wad::from_token_amount(e, a, d).raw());
    {
        let from_price = guarded(|| Wad::from_price(e, a, d).raw());
        let diff = (d as i32 - 18).unsigned_abs();
        let f = big::pow10(diff);
        if d <= 18 {
            let x = &ba * &f;
            judge_pan("from_token_amount", from_tok, Exp::Exact(&x), &ind, t)?;
            judge_pan("from_price", from_price, Exp::Exact(&x), &ind, t)?;
            t.add(match (d == 18, x.to_i128().is_some()) {
                (true, _) => "wadx.from_token.same_decimals",
                (false, true) => "wadx.from_token.scale_up.ok",
                (false, false) => "wadx.from_token.scale_up.overflow",
            });
            nt |= edge(&x, "wadx.from_token.scale_up.near_bound", t);
        } else {
            let x = big::div_trunc(&ba, &f);
            if diff <= 38 {
                // the factor fits i128 and a division cannot overflow: no documented error applies
                judge_pan("from_token_amount", from_tok, Exp::Exact(&x), &ind, t)?;
                judge_pan("from_price", from_price, Exp::Exact(&x), &ind, t)?;
                t.add("wadx.from_token.scale_down");
                if a < 0 && !(&ba % &f).is_zero() {
                    t.add("wadx.from_token.scale_down.neg_inexact");
                }
                if !x.is_zero() {
                    t.add("wadx.from_token.scale_down.nonzero");
                }
            } else {
                judge_pan("from_token_amount", from_tok, Exp::Open(&x, OC_FTOK), &ind, t)?;
                judge_pan("from_price", from_price, Exp::Open(&x, OC_FPRICE), &ind, t)?;
                t.add("wadx.from_token.decimals_gt_56");
                nt = true;
            }
        }
        // "This is an alias for Wad::from_token_amount"
        ensure!(from_price == from_tok, "C12/wad.from_price/differs-from-from_token_amount", "from_price = {:?}, from_token_amount = {:?}; {}", from_price, from_tok, ind());
    }

    // ---- to_token_amount
    let to_tok = guarded(|| wa.to_token_amount(e, d));
    {
        let diff = (d as i32 - 18).unsigned_abs();
        let f = big::pow10(diff);
        if d <= 18 {
            let x = big::div_trunc(&ba, &f);
            judge_pan("to_token_amount", to_tok, Exp::Exact(&x), &ind, t)?;
            if d == 18 {
                t.add("wadx.to_token.same_decimals");
            } else {
                t.add("wadx.to_token.scale_down");
                if a < 0 && !(&ba % &f).is_zero() {
                    t.add("wadx.to_token.scale_down.neg_inexact");
                }
            }
        } else {
            let x = &ba * &f;
            if diff > 38 && a == 0 {
                judge_pan("to_token_amount", to_tok, Exp::Open(&x, OC_TTOK), &ind, t)?;
                t.add("wadx.to_token.zero_decimals_gt_56");
                nt = true;
            } else {
                judge_pan("to_token_amount", to_tok, Exp::Exact(&x), &ind, t)?;
                t.add(if x.to_i128().is_some() { "wadx.to_token.scale_up.ok" } else { "wadx.to_token.scale_up.overflow" });
                if diff > 38 {
                    t.add("wadx.to_token.decimals_gt_56.must_fail");
                }
                nt |= edge(&x, "wadx.to_token.scale_up.near_bound", t);
            }
        }
    }

    // ---- token round-trips
    if d <= 18 {
        if let Ok(w) = from_tok {
            let back = guarded(|| Wad::from_raw(w).to_token_amount(e, d));
            ensure!(back == Ok(a), "C12/wad.to_token_amount/roundtrip-from_token_amount", "to_token_amount(from_token_amount({a}, {d}), {d}) = {:?}", back);
            t.add("wadx.roundtrip.token_le18");
        }
    }
    if (18..=56).contains(&d) {
        if let Ok(amt) = to_tok {
            let back = guarded(|| Wad::from_token_amount(e, amt, d).raw());
            ensure!(back == Ok(a), "C12/wad.from_token_amount/roundtrip-to_token_amount", "from_token_amount(to_token_amount({a}, {d}), {d}) = {:?}", back);
            t.add("wadx.roundtrip.token_ge18");
        }
    }

    Ok(nt)
}

pub fn run(case: &Case, ctx: &mut Ctx) -> R {
    let e = envx::new_env(100, envx::BIG_TTL);
    let mut t = Tally::default();
    let mut res = Ok(());
    for (i, item) in case.items.iter().enumerate() {
        let a = item.a.resolve(item.d);
        let b = match item.b.resolve(a) {
            Some(b) => b,
            None => {
                // the construction left i128: keep the item, with the small offset as second operand
                t.add("wadx.b_construction_out_of_range");
                match &item.b {
                    BSel::Near { delta } | BSel::SumEdge { delta, .. } | BSel::DiffEdge { delta, .. } | BSel::ProdEdge { delta, .. } | BSel::ScaledProdEdge { delta, .. } => *delta as i128,
                    BSel::Raw { v } => *v,
                }
            }
        };
        t.add(match &item.a {
            ASel::Raw { .. } => "wadx.a.raw",
            ASel::ScaleEdge { .. } => "wadx.a.scale_edge",
            ASel::TokenEdge { .. } => "wadx.a.token_edge",
        });
        t.add(match &item.b {
            BSel::Raw { .. } => "wadx.b.raw",
            BSel::Near { .. } => "wadx.b.near",
            BSel::SumEdge { .. } => "wadx.b.sum_edge",
            BSel::DiffEdge { .. } => "wadx.b.diff_edge",
            BSel::ProdEdge { .. } => "wadx.b.prod_edge",
            BSel::ScaledProdEdge { .. } => "wadx.b.scaled_prod_edge",
        });
        t.add("wadx.items");
        match eval_item(&e, a, b, item.d, &mut t) {
            Ok(nt) => {
                ctx.op(true);
                if nt {
                    ctx.nontrivial = true;
                    t.add("wadx.nontrivial_items");
                }
            }
            Err(mut v) => {
                v.detail = format!("item #{i} {:?} (a={a} b={b} d={}): {}", item, item.d, v.detail);
                res = Err(v);
                break;
            }
        }
    }
    if ctx.nontrivial {
        t.add("nontrivial");
    }
    t.flush(ctx);
    res
}

/// vacuity floors: <= 1/10 of the minimum measured over seeds 0..3 on the unchanged tree (quick = 32 000 cases of
/// 1..=24 items; thorough runs 10 x the cases, floors 7 x).  Only INPUT classes are floored, never the outcome of an
/// input whose behaviour is open (`*.open.*`).
pub const FLOORS: &[(&str, u64, u64)] = &[
    ("wadx.items", 39_000, 273_000),
    ("wadx.nontrivial_items", 22_000, 154_000),
    ("wadx.from_integer.ok", 22_000, 154_000),
    ("wadx.from_integer.overflow", 17_000, 119_000),
    ("wadx.from_integer.near_bound", 5_500, 38_500),
    ("wadx.roundtrip.integer", 22_000, 154_000),
    ("wadx.to_integer.neg_inexact", 19_000, 133_000),
    ("wadx.abs.negative", 19_000, 133_000),
    ("wadx.abs_neg.min", 96, 672),
    ("wadx.ord.eq", 520, 3_640),
    ("wadx.ord.mixed_signs", 18_000, 126_000),
    ("wadx.add.overflow", 1_600, 11_200),
    ("wadx.add.near_bound", 4_500, 31_500),
    ("wadx.sub.overflow", 1_400, 9_800),
    ("wadx.sub.near_bound", 4_500, 31_500),
    ("wadx.mul_int.ok", 22_000, 154_000),
    ("wadx.mul_int.overflow", 17_000, 119_000),
    ("wadx.mul_int.near_bound", 3_400, 23_800),
    ("wadx.div_int.zero_den", 2_400, 16_800),
    ("wadx.div_int.neg_inexact", 14_000, 98_000),
    ("wadx.div_int.min_by_neg1", 10, 70),
    ("wadx.op_mul.native", 22_000, 154_000),
    ("wadx.op_mul.native.product_near_bound", 2_100, 14_700),
    ("wadx.op_mul.neg_inexact", 8_700, 60_900),
    ("wadx.op_mul.no_fit", 6_400, 44_800),
    ("wadx.op_mul.phantom", 11_000, 77_000),
    ("wadx.op_div.native", 20_000, 140_000),
    ("wadx.op_div.native.product_near_bound", 2_900, 20_300),
    ("wadx.op_div.neg_inexact", 7_100, 49_700),
    ("wadx.op_div.no_fit", 6_400, 44_800),
    ("wadx.op_div.phantom", 10_000, 70_000),
    ("wadx.op_div.zero_den", 2_400, 16_800),
    ("wadx.from_token.same_decimals", 1_600, 11_200),
    ("wadx.from_token.scale_up.ok", 11_000, 77_000),
    ("wadx.from_token.scale_up.overflow", 3_100, 21_700),
    ("wadx.from_token.scale_up.near_bound", 3_200, 22_400),
    ("wadx.from_token.scale_down.nonzero", 12_000, 84_000),
    ("wadx.from_token.scale_down.neg_inexact", 8_500, 59_500),
    ("wadx.from_token.decimals_gt_56", 5_100, 35_700),
    ("wadx.to_token.scale_down.neg_inexact", 6_500, 45_500),
    ("wadx.to_token.scale_up.ok", 12_000, 84_000),
    ("wadx.to_token.scale_up.overflow", 11_000, 77_000),
    ("wadx.to_token.scale_up.near_bound", 2_900, 20_300),
    ("wadx.to_token.decimals_gt_56.must_fail", 5_000, 35_000),
    ("wadx.to_token.zero_decimals_gt_56", 51, 357),
    ("wadx.roundtrip.token_le18", 12_000, 84_000),
    ("wadx.roundtrip.token_ge18", 14_000, 98_000),
];

/// rule and domain restrictions of the `wad-api` sub-check (appended to the property's assumptions)
pub const ASSUMPTIONS: &[&str] = &[
    "wad-api: case = vector of items (a, b, decimals); every item runs the whole remaining public Wad API (from_raw/raw, from_integer, to_integer, abs, Neg, min, max, ordering, \
     checked_add/Add, checked_sub/Sub, checked_mul_int/Wad*i128/i128*Wad, checked_div_int/Wad/i128, Wad*Wad, Wad/Wad, from_token_amount, from_price, to_token_amount, round-trips) \
     against exact BigInt results; an item is non-trivial when some exact result lies within 2^64 of an i128 bound (either side), a divisor is zero, or the input is one whose \
     behaviour the documentation leaves open",
    "wad-api: failure of a panicking function = any panic (contract error or Rust arithmetic panic; the harness and the repository both build with overflow-checks); error codes are not asserted",
    "wad-api: counted, not asserted (undocumented): Wad*Wad / Wad/Wad when only the intermediate native product leaves i128; i128::MIN under abs/Neg; i128::MIN / -1 under \
     checked_div_int / Div<i128>; token decimals above 56 (scaling factor above 10^38) where the exact result would fit; a value handed back must still be exact when it fits",
];

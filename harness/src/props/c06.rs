//! C06 — Privileged functions obey the role / admin / owner hierarchy.
//!
//! Targets: harness `Acl` (AccessControl trait defaults + one probe per attribute macro),
//! example `nft-access-control` (all five macro kinds) and example `ownable` (`#[only_owner]`).
//! Oracle: reference model {admin, pending admin, members per role, role_admin} written from
//! the statement and the module documentation.  Every call is made with an explicit set of
//! authorization entries; "X authorizes the call" == "an entry of X for exactly this invocation
//! is attached".  After every step the complete enumeration state is compared with the model.
//!
//! Low-level clean-up helpers (harness Acl only): `remove_role_admin` / `remove_role_count` are
//! `#[only_admin]` entry points around `remove_role_admin_no_auth` / `remove_role_accounts_count_no_auth`.
//! Model: after remove_role_admin the role has no admin role (only the contract admin manages it; holders
//! of the former admin role are refused by the ordinary grant/revoke oracle); remove_role_count succeeds
//! iff admin-authorized and the member counter exists (role granted before, "the entries themselves
//! remain" when emptied) and is 0; the enumeration oracle of `check_state` stays in force after both.

use super::ftcore::{auth_strategy, AuthMode};
use crate::engine::*;
use crate::envx::{self, call, call_t, Inv};
use crate::gen::pick;
use proptest::prelude::*;
use serde::{Deserialize, Serialize};
use serde_json::json;
use soroban_sdk::{symbol_short, Address, Env, IntoVal, String as SString, Symbol, TryFromVal, Val, Vec as SVec};
use std::cell::Cell;
use std::collections::{BTreeMap, BTreeSet};
use std::panic::{catch_unwind, AssertUnwindSafe};
use stellar_access::access_control as ac;

/// four named roles used by the guard probes plus one whose name is the EMPTY symbol (the library uses the empty symbol as
/// the "no admin role" placeholder of its role_admin_changed event; a real role of that name must stay an ordinary role)
pub const NR: usize = 5;
/// named accounts; index NA is an extra outsider that is never a grant target
pub const NA: usize = 5;

// ------------------------------------------------------------------ explicit-authorization calls

/// A fully resolved call and the addresses that attach an entry for exactly this invocation.
#[derive(Clone, Debug)]
pub struct Call {
    pub func: &'static str,
    pub args: Vec<Val>,
    pub signers: Vec<Address>,
}

fn svec(e: &Env, args: &[Val]) -> SVec<Val> {
    let mut v = SVec::new(e);
    for a in args {
        v.push_back(*a);
    }
    v
}

/// change one argument of a signed invocation (Tamper); false if nothing could be changed
fn tamper_arg(e: &Env, v: &mut Val, pool: &[Address]) -> bool {
    if let Ok(a) = Address::try_from_val(e, v) {
        if let Some(o) = pool.iter().find(|p| **p != a) {
            *v = o.clone().into_val(e);
            return true;
        }
        return false;
    }
    if let Ok(x) = u32::try_from_val(e, v) {
        *v = x.wrapping_add(1).into_val(e);
        return true;
    }
    if let Ok(s) = Symbol::try_from_val(e, v) {
        let z = Symbol::new(e, "zz");
        *v = if s == z { Symbol::new(e, "zy").into_val(e) } else { z.into_val(e) };
        return true;
    }
    false
}

/// Attach entries according to `mode`, invoke, detach.  Returns the result and the list of
/// addresses whose entry for EXACTLY this invocation was attached.
pub fn exec(e: &Env, c: &Address, cl: &Call, mode: &AuthMode, pool: &[Address]) -> (Result<Val, String>, Vec<Address>) {
    let inv = Inv { contract: c.clone(), func: cl.func.to_string(), args: cl.args.clone(), subs: vec![] };
    let mut entries: Vec<(Address, Inv, bool)> = cl.signers.iter().map(|a| (a.clone(), inv.clone(), true)).collect();
    let n = entries.len();
    match mode {
        AuthMode::Exact => {}
        AuthMode::Drop(i) => {
            if n > 0 {
                entries.remove(*i as usize % n);
            }
        }
        AuthMode::Swap(i, o) => {
            if n > 0 {
                let cand: Vec<&Address> = pool.iter().filter(|p| !cl.signers.contains(p)).collect();
                if !cand.is_empty() {
                    entries[*i as usize % n].0 = cand[pick(*o, cand.len())].clone();
                }
            }
        }
        AuthMode::Tamper(i, k) => {
            if n > 0 {
                let en = &mut entries[*i as usize % n];
                let mut changed = false;
                if !en.1.args.is_empty() {
                    let j = *k as usize % en.1.args.len();
                    changed = tamper_arg(e, &mut en.1.args[j], pool);
                }
                if !changed {
                    en.1.func = "tampered".to_string();
                }
                en.2 = false;
            }
        }
        AuthMode::Surplus(o) => {
            let who = pool[pick(*o, pool.len())].clone();
            if !cl.signers.contains(&who) {
                let junk = Inv { contract: c.clone(), func: "junk".into(), args: vec![who.clone().into_val(e)], subs: vec![] };
                entries.push((who, junk, false));
            }
        }
    }
    let refs: Vec<(&Address, &Inv)> = entries.iter().map(|(a, i, _)| (a, i)).collect();
    envx::set_auth(e, &refs);
    let r = call(e, c, cl.func, svec(e, &cl.args));
    envx::no_auth(e);
    let attached = entries.iter().filter(|x| x.2).map(|x| x.0.clone()).collect();
    (r, attached)
}

// ------------------------------------------------------------------ case

#[derive(Clone, Copy, Debug, Serialize, Deserialize, PartialEq, Eq)]
pub enum Target {
    Acl,
    Nft,
    Ownable,
}

/// Caller / signer selector, resolved against the model when the op executes.
#[derive(Clone, Debug, Serialize, Deserialize)]
pub enum Who {
    /// the current admin / owner (the last one after a renounce)
    Admin,
    /// a holder of the admin role `depth` levels up the role-admin chain of the op's role (0 = direct)
    RoleAdmin(u8, u16),
    /// a member of the op's role
    Member(u16),
    /// an account with no standing at all
    Stranger,
    Acct(u16),
    /// the pending admin / owner (the last offeree when none)
    Pending,
    /// a holder of the admin role that was REMOVED from the op's role by `remove_role_admin`
    /// (preferably not the admin itself); any account when there is none
    FormerRoleAdmin(u16),
}

/// Role selector of the low-level clean-up ops, resolved against the model when the op executes
/// (falls back to `pick(sel, NR)` when no role is in the wanted state).
#[derive(Clone, Debug, Serialize, Deserialize)]
pub enum RSel {
    Idx(u8),
    /// a role that currently has an admin role / has none
    WithAdminRole(u16),
    WithoutAdminRole(u16),
    /// a role that had members and lost all of them (member counter left at zero)
    Emptied(u16),
    /// a role with >= 1 member
    Populated(u16),
    /// a role without member counter (never granted, or counter removed and not granted since)
    NoCounter(u16),
    /// a role whose admin role was removed and not set again
    AdminRemoved(u16),
    /// a role whose member counter was removed and that was not granted since
    CounterRemoved(u16),
    /// a role with exactly one member (revoking it empties the role)
    SingleMember(u16),
}

#[derive(Clone, Debug, Serialize, Deserialize)]
pub enum LiveSel {
    /// current ledger + d
    Rel(i32),
    /// live_until_ledger = 0 (cancel); `same` = name the pending account
    Cancel(bool),
}

#[derive(Clone, Debug, Serialize, Deserialize)]
pub enum Op {
    /// `also`: a second account that attaches an entry for exactly this invocation
    Grant { role: u8, account: u16, caller: Who, also: Option<Who>, auth: AuthMode },
    Revoke { role: u8, account: Who, caller: Who, also: Option<Who>, auth: AuthMode },
    Renounce { role: u8, caller: Who, auth: AuthMode },
    SetRoleAdmin { role: u8, admin_role: u8, by: Who, auth: AuthMode },
    TransferAdmin { to: u16, live: LiveSel, by: Who, auth: AuthMode },
    AcceptAdmin { by: Who, auth: AuthMode },
    RenounceAdmin { by: Who, auth: AuthMode },
    /// guarded entry point `kind` (per target), `role` only steers the caller selector
    Probe { kind: u8, role: u8, caller: Who, also: Option<Who>, other: u16, auth: AuthMode },
    Advance { k: u32 },
    /// harness Acl only: `#[only_admin] remove_role_admin(role)` -> `remove_role_admin_no_auth`
    RemoveRoleAdmin { role: RSel, by: Who, auth: AuthMode },
    /// harness Acl only: `#[only_admin] remove_role_count(role)` -> `remove_role_accounts_count_no_auth`
    RemoveRoleCount { role: RSel, by: Who, auth: AuthMode },
    /// grant_role (revoke_role when `revoke`) on a state-relatively selected role: the follow-up of the clean-up ops
    GrantSel { role: RSel, account: u16, revoke: bool, caller: Who, auth: AuthMode },
    /// harness Acl only: `#[only_admin] seed_role(role, accounts)` -> `grant_role_no_auth` for every listed account (the list
    /// may name an account twice or name a current member)
    SeedRole { role: u8, accounts: Vec<u16>, by: Who, auth: AuthMode },
}

#[derive(Clone, Debug, Serialize, Deserialize)]
pub struct Case {
    pub target: Target,
    pub seq: u32,
    pub small_ttl: bool,
    /// initial role-admin wiring (set-up by the admin through set_role_admin)
    pub role_admin0: Vec<Option<u8>>,
    /// initial members per role, bitmask over the named accounts (set-up through grant_role)
    pub members0: Vec<u8>,
    pub ops: Vec<Op>,
}

fn who_strategy() -> BoxedStrategy<Who> {
    prop_oneof![
        5 => Just(Who::Admin),
        8 => (prop_oneof![5 => Just(0u8), 2 => Just(1u8), 1 => Just(2u8)], any::<u16>()).prop_map(|(d, s)| Who::RoleAdmin(d, s)),
        2 => any::<u16>().prop_map(Who::Member),
        2 => Just(Who::Stranger),
        2 => any::<u16>().prop_map(Who::Acct),
        1 => Just(Who::Pending),
    ]
    .boxed()
}
fn holder_who_strategy() -> BoxedStrategy<Who> {
    prop_oneof![
        8 => Just(Who::Admin),
        1 => Just(Who::Stranger),
        2 => any::<u16>().prop_map(Who::Acct),
        1 => Just(Who::Pending),
    ]
    .boxed()
}
fn accept_who_strategy() -> BoxedStrategy<Who> {
    prop_oneof![
        8 => Just(Who::Pending),
        1 => Just(Who::Admin),
        2 => any::<u16>().prop_map(Who::Acct),
    ]
    .boxed()
}
/// an additional exact signer (mostly none; when present mostly the admin: "the admin signs, somebody else is named as caller")
fn also_strategy() -> BoxedStrategy<Option<Who>> {
    proptest::option::weighted(0.12, prop_oneof![3 => Just(Who::Admin), 1 => any::<u16>().prop_map(Who::Member), 1 => any::<u16>().prop_map(Who::Acct)]).boxed()
}

fn live_strategy() -> BoxedStrategy<LiveSel> {
    prop_oneof![
        8 => prop_oneof![Just(0i32), Just(1), 2i32..40, Just(-1)].prop_map(LiveSel::Rel),
        2 => any::<bool>().prop_map(LiveSel::Cancel),
    ]
    .boxed()
}

fn admin_ops(w: u32) -> BoxedStrategy<Op> {
    let a = auth_strategy(6);
    prop_oneof![
        2 * w => (any::<u16>(), live_strategy(), holder_who_strategy(), a.clone()).prop_map(|(to, live, by, auth)| Op::TransferAdmin { to, live, by, auth }),
        2 * w => (accept_who_strategy(), a.clone()).prop_map(|(by, auth)| Op::AcceptAdmin { by, auth }),
        w => (holder_who_strategy(), a.clone()).prop_map(|(by, auth)| Op::RenounceAdmin { by, auth }),
        1 => prop_oneof![Just(0u32), Just(1), 2u32..30].prop_map(|k| Op::Advance { k }),
    ]
    .boxed()
}

/// low-level clean-up entry points of the harness Acl and their follow-up calls
fn lowlevel_ops() -> BoxedStrategy<Op> {
    let a = auth_strategy(6);
    let idx = || (0u8..NR as u8).prop_map(RSel::Idx);
    let s = || any::<u16>();
    let r_admin = prop_oneof![6 => s().prop_map(RSel::WithAdminRole), 2 => s().prop_map(RSel::WithoutAdminRole), 1 => s().prop_map(RSel::AdminRemoved), 1 => idx()];
    let r_count = prop_oneof![6 => s().prop_map(RSel::Emptied), 2 => s().prop_map(RSel::Populated), 2 => s().prop_map(RSel::NoCounter), 1 => s().prop_map(RSel::CounterRemoved), 1 => idx()];
    // grant / revoke on a role whose admin role was removed: by a holder of the former admin role, the admin, others
    let r_follow = prop_oneof![8 => s().prop_map(RSel::AdminRemoved), 1 => s().prop_map(RSel::CounterRemoved), 1 => idx()];
    let follow_caller = prop_oneof![5 => s().prop_map(Who::FormerRoleAdmin), 4 => Just(Who::Admin), 1 => Just(Who::Stranger), 1 => s().prop_map(Who::Member)];
    let mostly_admin = || prop_oneof![6 => Just(Who::Admin), 1 => s().prop_map(|x| Who::RoleAdmin(0, x)), 1 => Just(Who::Stranger)];
    prop_oneof![
        3 => (r_admin, holder_who_strategy(), a.clone()).prop_map(|(role, by, auth)| Op::RemoveRoleAdmin { role, by, auth }),
        4 => (r_count, holder_who_strategy(), a.clone()).prop_map(|(role, by, auth)| Op::RemoveRoleCount { role, by, auth }),
        3 => (r_follow, s(), proptest::bool::weighted(0.3), follow_caller, a.clone())
            .prop_map(|(role, account, revoke, caller, auth)| Op::GrantSel { role, account, revoke, caller, auth }),
        // the role is granted again after its counter was removed
        2 => (s().prop_map(RSel::CounterRemoved), s(), mostly_admin(), auth_strategy(12))
            .prop_map(|(role, account, caller, auth)| Op::GrantSel { role, account, revoke: false, caller, auth }),
        // batch grant through the low-level function, duplicates and current members included
        3 => (0u8..NR as u8, proptest::collection::vec(prop_oneof![3 => s(), 1 => Just(0u16), 1 => Just(u16::MAX)], 1..5), any::<bool>(), mostly_admin(), auth_strategy(12))
            .prop_map(|(role, mut accounts, dup, by, auth)| {
                if dup {
                    let x = accounts[0];
                    accounts.push(x);
                }
                Op::SeedRole { role, accounts, by, auth }
            }),
        // the last member is revoked: the counter stays behind at zero
        3 => (s().prop_map(RSel::SingleMember), s(), mostly_admin(), auth_strategy(12))
            .prop_map(|(role, account, caller, auth)| Op::GrantSel { role, account, revoke: true, caller, auth }),
    ]
    .boxed()
}

/// short correlated sequences (every op is still an ordinary, individually checked op with its own auth mode):
/// the life cycle of a member counter and of an admin-role assignment
fn lowlevel_scripts() -> BoxedStrategy<Vec<Op>> {
    let s = || any::<u16>();
    let au = || auth_strategy(14);
    let mostly_admin = || prop_oneof![8 => Just(Who::Admin), 1 => Just(Who::Stranger)];
    let counter = (
        (s(), au()).prop_map(|(x, auth)| Op::GrantSel { role: RSel::SingleMember(x), account: x, revoke: true, caller: Who::Admin, auth }),
        (s(), mostly_admin(), au()).prop_map(|(x, by, auth)| Op::RemoveRoleCount { role: RSel::Emptied(x), by, auth }),
        (s(), s(), mostly_admin(), au()).prop_map(|(x, account, caller, auth)| Op::GrantSel { role: RSel::CounterRemoved(x), account, revoke: false, caller, auth }),
        proptest::option::weighted(0.5, (s(), au()).prop_map(|(x, auth)| Op::RemoveRoleCount { role: RSel::CounterRemoved(x), by: Who::Admin, auth })),
    )
        .prop_map(|(a, b, c, d)| [Some(a), Some(b), Some(c), d].into_iter().flatten().collect::<Vec<Op>>());
    let admin_role = (
        (s(), mostly_admin(), au()).prop_map(|(x, by, auth)| Op::RemoveRoleAdmin { role: RSel::WithAdminRole(x), by, auth }),
        (s(), s(), any::<bool>(), s(), au())
            .prop_map(|(x, account, revoke, c, auth)| Op::GrantSel { role: RSel::AdminRemoved(x), account, revoke, caller: Who::FormerRoleAdmin(c), auth }),
        (s(), s(), any::<bool>(), au()).prop_map(|(x, account, revoke, auth)| Op::GrantSel { role: RSel::AdminRemoved(x), account, revoke, caller: Who::Admin, auth }),
    )
        .prop_map(|(a, b, c)| vec![a, b, c]);
    prop_oneof![3 => counter, 2 => admin_role].boxed()
}

/// history items of the harness Acl: mostly single ops of the original mix (low weight for the clean-up
/// entry points: the classes of the original histories keep their floors)
fn acl_item_strategy() -> BoxedStrategy<Vec<Op>> {
    prop_oneof![
        90 => base_op_strategy(Target::Acl).prop_map(|o| vec![o]),
        8 => lowlevel_ops().prop_map(|o| vec![o]),
        2 => lowlevel_scripts(),
    ]
    .boxed()
}

fn op_strategy(target: Target) -> BoxedStrategy<Op> {
    base_op_strategy(target)
}

fn base_op_strategy(target: Target) -> BoxedStrategy<Op> {
    let a = auth_strategy(6);
    let role = 0u8..NR as u8;
    if target == Target::Ownable {
        return prop_oneof![
            4 => admin_ops(2),
            5 => (0u8..1, holder_who_strategy(), also_strategy(), any::<u16>(), a.clone())
                .prop_map(|(kind, caller, also, other, auth)| Op::Probe { kind, role: 0, caller, also, other, auth }),
        ]
        .boxed();
    }
    let member_sel = prop_oneof![5 => any::<u16>().prop_map(Who::Member), 2 => any::<u16>().prop_map(Who::Acct)];
    prop_oneof![
        9 => (role.clone(), any::<u16>(), who_strategy(), also_strategy(), a.clone())
            .prop_map(|(role, account, caller, also, auth)| Op::Grant { role, account, caller, also, auth }),
        7 => (role.clone(), member_sel, who_strategy(), also_strategy(), a.clone())
            .prop_map(|(role, account, caller, also, auth)| Op::Revoke { role, account, caller, also, auth }),
        3 => (role.clone(), prop_oneof![4 => any::<u16>().prop_map(Who::Member), 1 => any::<u16>().prop_map(Who::Acct)], a.clone())
            .prop_map(|(role, caller, auth)| Op::Renounce { role, caller, auth }),
        3 => (role.clone(), role.clone(), holder_who_strategy(), a.clone())
            .prop_map(|(role, admin_role, by, auth)| Op::SetRoleAdmin { role, admin_role, by, auth }),
        6 => admin_ops(1),
        9 => (0u8..6, role.clone(), prop_oneof![3 => any::<u16>().prop_map(Who::Member), 2 => who_strategy()], also_strategy(), any::<u16>(), a.clone())
            .prop_map(|(kind, role, caller, also, other, auth)| Op::Probe { kind, role, caller, also, other, auth }),
    ]
    .boxed()
}

fn strategy_for(target: Target, tier: Tier) -> BoxedStrategy<Case> {
    let max_ops = tier.pick(40usize, 80usize);
    let ra = proptest::collection::vec(proptest::option::weighted(0.6, 0u8..NR as u8), NR);
    let mem = proptest::collection::vec(prop_oneof![1 => Just(0u8), 3 => 0u8..(1 << NA)], NR);
    let ops: BoxedStrategy<Vec<Op>> = if target == Target::Acl {
        proptest::collection::vec(acl_item_strategy(), 0..=max_ops)
            .prop_map(move |v| {
                let mut o: Vec<Op> = v.into_iter().flatten().collect();
                o.truncate(max_ops);
                o
            })
            .boxed()
    } else {
        proptest::collection::vec(op_strategy(target), 0..=max_ops).boxed()
    };
    (100u32..5000, proptest::bool::weighted(0.15), ra, mem, ops)
        .prop_map(move |(seq, small_ttl, role_admin0, members0, ops)| {
            if target == Target::Ownable {
                Case { target, seq, small_ttl, role_admin0: vec![], members0: vec![], ops }
            } else {
                Case { target, seq, small_ttl, role_admin0, members0, ops }
            }
        })
        .boxed()
}

// ------------------------------------------------------------------ world, model, dump

const ACL_ROLES: [&str; NR] = ["r0", "r1", "r2", "r3", ""];
const NFT_ROLES: [&str; NR] = ["other", "minter", "burner", "madmin", ""];

pub struct World {
    pub e: Env,
    pub c: Address,
    pub target: Target,
    /// NA named accounts + the outsider
    pub accts: Vec<Address>,
    pub roles: Vec<Symbol>,
    pub role_names: Vec<&'static str>,
    /// frame owner for entry-point reads (a plain contract address without any standing)
    pub reader: Address,
}

impl World {
    pub fn setup(target: Target, seq: u32, max_ttl: u32) -> World {
        let e = envx::new_env(seq, max_ttl);
        let accts = envx::actors(&e, NA + 1);
        let admin = accts[0].clone();
        let s = |x: &str| SString::from_str(&e, x);
        let (c, names): (Address, Vec<&'static str>) = match target {
            Target::Acl => (e.register(crate::contracts::c06::acl::Acl, (admin,)), ACL_ROLES.to_vec()),
            Target::Nft => (
                e.register(crate::examples::nft_access_control::contract::ExampleContract, (s("uri"), s("N"), s("N"), admin)),
                NFT_ROLES.to_vec(),
            ),
            Target::Ownable => (e.register(crate::examples::ownable::contract::ExampleContract, (admin,)), vec![]),
        };
        let roles = names.iter().map(|n| Symbol::new(&e, n)).collect();
        envx::no_auth(&e);
        let reader = envx::actor(&e);
        World { e, c, target, accts, roles, role_names: names, reader }
    }
    fn fname(&self, generic: &'static str) -> &'static str {
        if self.target != Target::Ownable {
            return generic;
        }
        match generic {
            "transfer_admin_role" => "transfer_ownership",
            "accept_admin_transfer" => "accept_ownership",
            "renounce_admin" => "renounce_ownership",
            "get_admin" => "get_owner",
            x => x,
        }
    }
    fn idx(&self, a: &Address) -> Option<usize> {
        self.accts.iter().position(|x| x == a)
    }
}

#[derive(Clone, Debug, Default)]
struct Model {
    admin: Option<usize>,
    last_admin: usize,
    pending: Option<usize>,
    last_offeree: usize,
    renounced: bool,
    members: Vec<BTreeSet<usize>>,
    role_admin: Vec<Option<usize>>,
    /// NFT: token id -> owner
    tokens: BTreeMap<u32, usize>,
    next_token: u32,
    /// successful probes (Acl counter / ownable counter)
    counter: u32,
    /// the role's member counter entry exists: created by the first grant, "the entries themselves
    /// remain" when the role is emptied (module docs), removed by remove_role_count
    count_entry: Vec<bool>,
    /// counter removed by remove_role_count and the role not granted since
    count_removed: Vec<bool>,
    /// admin role removed from the role by remove_role_admin (and none set since)
    former_admin: Vec<Option<usize>>,
}

#[derive(Clone, Debug, PartialEq, Eq)]
struct Dump {
    admin: Option<Address>,
    /// has[role][acct]
    has: Vec<Vec<Option<u32>>>,
    count: Vec<u32>,
    /// members[role][i], i < count
    members: Vec<Vec<Address>>,
    role_admin: Vec<Option<Symbol>>,
    existing: Vec<Symbol>,
    counter: u32,
    /// NFT balances per account
    balances: Vec<u32>,
}

/// Bulk read with the library's own getters inside one contract frame (the trait defaults of all
/// three targets forward to exactly these functions).  A getter that panics (a member slot below
/// `count` that does not exist) is turned into a violation.
fn dump(w: &World) -> Result<Dump, Violation> {
    let e = &w.e;
    let at: Cell<(usize, u32)> = Cell::new((usize::MAX, 0));
    let r = catch_unwind(AssertUnwindSafe(|| {
        e.as_contract(&w.c, || {
            if w.target == Target::Ownable {
                use crate::examples::ownable::contract::DataKey;
                let counter: i32 = e.storage().instance().get(&DataKey::Counter).unwrap_or(-1);
                return Dump {
                    admin: stellar_access::ownable::get_owner(e),
                    has: vec![],
                    count: vec![],
                    members: vec![],
                    role_admin: vec![],
                    existing: vec![],
                    counter: counter as u32,
                    balances: vec![],
                };
            }
            let admin = ac::get_admin(e);
            let has: Vec<Vec<Option<u32>>> = w.roles.iter().map(|r| w.accts.iter().map(|a| ac::has_role(e, a, r)).collect()).collect();
            let count: Vec<u32> = w.roles.iter().map(|r| ac::get_role_member_count(e, r)).collect();
            let mut members = vec![];
            for (ri, r) in w.roles.iter().enumerate() {
                let mut v = vec![];
                for i in 0..count[ri].min(64) {
                    at.set((ri, i));
                    v.push(ac::get_role_member(e, r, i));
                }
                members.push(v);
            }
            at.set((usize::MAX, 0));
            let role_admin = w.roles.iter().map(|r| ac::get_role_admin(e, r)).collect();
            let existing: Vec<Symbol> = ac::get_existing_roles(e).iter().collect();
            let (counter, balances) = match w.target {
                Target::Acl => (e.storage().instance().get(&symbol_short!("CNT")).unwrap_or(0u32), vec![]),
                _ => (0, w.accts.iter().map(|a| stellar_tokens::non_fungible::Base::balance(e, a)).collect()),
            };
            Dump { admin, has, count, members, role_admin, existing, counter, balances }
        })
    }));
    match r {
        Ok(d) => Ok(d),
        Err(_) => {
            let (ri, i) = at.get();
            if ri == usize::MAX {
                Err(violation("C06/dump/getter-panicked", "a getter that cannot fail panicked during the bulk read"))
            } else {
                Err(violation(
                    "C06/enumeration/member-slot-missing",
                    format!("get_role_member({}, {i}) fails although get_role_member_count reports more members", w.role_names[ri]),
                ))
            }
        }
    }
}

/// Full comparison of the observed state with the model (DESIGN §4 C06 oracle, second half).
fn check_state(w: &World, m: &Model, d: &Dump, step: &str) -> R {
    let want_admin = m.admin.map(|i| w.accts[i].clone());
    ensure!(d.admin == want_admin, "C06/get_admin/mismatch", "after {step}: holder is {:?}, model says {:?}", d.admin, want_admin);
    if w.target == Target::Ownable {
        ensure!(d.counter == m.counter, "C06/probe/counter-mismatch", "after {step}: counter {} vs model {}", d.counter, m.counter);
        return Ok(());
    }
    for r in 0..NR {
        let name = w.role_names[r];
        let set = &m.members[r];
        ensure!(
            d.count[r] as usize == set.len(),
            "C06/enumeration/count-mismatch",
            "after {step}: get_role_member_count({name}) = {} but {} accounts hold the role",
            d.count[r],
            set.len()
        );
        let mut seen = BTreeSet::new();
        for (i, a) in d.members[r].iter().enumerate() {
            let Some(ai) = w.idx(a) else { bail!("C06/enumeration/unknown-member", "after {step}: get_role_member({name},{i}) is an unknown address") };
            ensure!(seen.insert(ai), "C06/enumeration/duplicate-member", "after {step}: account {ai} enumerated twice in role {name}");
            ensure!(set.contains(&ai), "C06/enumeration/non-member-enumerated", "after {step}: get_role_member({name},{i}) = account {ai} which does not hold the role");
        }
        ensure!(seen == *set, "C06/enumeration/member-not-enumerated", "after {step}: role {name} enumerates {:?}, model {:?}", seen, set);
        for a in 0..w.accts.len() {
            match d.has[r][a] {
                Some(i) => {
                    ensure!(set.contains(&a), "C06/has_role/non-member", "after {step}: has_role(account {a}, {name}) = Some({i}) but the role was not granted / was revoked");
                    ensure!(
                        (i as usize) < d.members[r].len() && d.members[r][i as usize] == w.accts[a],
                        "C06/enumeration/index-mismatch",
                        "after {step}: has_role(account {a}, {name}) = Some({i}) but get_role_member({name},{i}) = {:?} (count {})",
                        d.members[r].get(i as usize).and_then(|x| w.idx(x)),
                        d.count[r]
                    );
                }
                None => {
                    ensure!(!set.contains(&a), "C06/has_role/member-missing", "after {step}: has_role(account {a}, {name}) = None but the account holds the role");
                }
            }
        }
        let want_ra = m.role_admin[r].map(|x| w.roles[x].clone());
        ensure!(d.role_admin[r] == want_ra, "C06/get_role_admin/mismatch", "after {step}: role admin of {name} is {:?}, model {:?}", d.role_admin[r], m.role_admin[r]);
    }
    // existing roles: as a set, no duplicates, == roles with >= 1 member
    let mut ex = BTreeSet::new();
    for s in &d.existing {
        let Some(ri) = w.roles.iter().position(|r| r == s) else { bail!("C06/existing_roles/unknown-role", "after {step}: unknown role listed") };
        ensure!(ex.insert(ri), "C06/existing_roles/duplicate", "after {step}: role {} listed twice", w.role_names[ri]);
    }
    let want: BTreeSet<usize> = (0..NR).filter(|r| !m.members[*r].is_empty()).collect();
    ensure!(ex == want, "C06/existing_roles/mismatch", "after {step}: get_existing_roles = {:?}, roles with members = {:?}", ex, want);
    if w.target == Target::Acl {
        ensure!(d.counter == m.counter, "C06/probe/counter-mismatch", "after {step}: counter {} vs model {}", d.counter, m.counter);
    } else {
        for a in 0..w.accts.len() {
            let want = m.tokens.values().filter(|o| **o == a).count() as u32;
            ensure!(d.balances[a] == want, "C06/probe/nft-balance-mismatch", "after {step}: balance(account {a}) = {} vs model {want}", d.balances[a]);
        }
    }
    Ok(())
}

/// Public entry point invoked as a sub-call of the current (reader) frame.
fn sub_call<T: TryFromVal<Env, Val>>(e: &Env, c: &Address, f: &str, args: SVec<Val>) -> Result<T, String> {
    match e.try_invoke_contract::<T, soroban_sdk::Error>(c, &Symbol::new(e, f), args) {
        Ok(Ok(v)) => Ok(v),
        Ok(Err(_)) => Err(format!("{f}: unexpected return type")),
        Err(Ok(err)) => Err(format!("{err:?}")),
        Err(Err(ie)) => Err(format!("{ie:?}")),
    }
}

/// The same facts through the public entry points (cross-check of the bulk read).  All reads of one
/// step are sub-invocations of a single frame of the outsider account (one top-level frame per
/// step instead of dozens: the cost of a top-level invocation grows with the history of an Env).
fn check_api(w: &World, d: &Dump, roles: &[usize], accts: &[usize], full: bool) -> R {
    w.e.as_contract(&w.reader, || check_api_inner(w, d, roles, accts, full))
}

fn check_api_inner(w: &World, d: &Dump, roles: &[usize], accts: &[usize], full: bool) -> R {
    let e = &w.e;
    let adm = sub_call::<Option<Address>>(e, &w.c, w.fname("get_admin"), args![e]).map_err(|x| violation("C06/api/get_admin-failed", x))?;
    ensure!(adm == d.admin, "C06/api/get_admin-mismatch", "entry point {:?} vs bulk read {:?}", adm, d.admin);
    if w.target == Target::Ownable {
        return Ok(());
    }
    // one past the end must fail, for every role after every step
    for r in 0..w.roles.len() {
        let oob = sub_call::<Address>(e, &w.c, "get_role_member", args![e; w.roles[r].clone(), d.count[r]]);
        ensure!(oob.is_err(), "C06/enumeration/oob-succeeded", "get_role_member({}, count = {}) succeeded", w.role_names[r], d.count[r]);
    }
    for &r in roles {
        let role = w.roles[r].clone();
        let cnt = sub_call::<u32>(e, &w.c, "get_role_member_count", args![e; role.clone()]).map_err(|x| violation("C06/api/count-failed", x))?;
        ensure!(cnt == d.count[r], "C06/api/count-mismatch", "entry point {} vs bulk read {}", cnt, d.count[r]);
        for &a in accts {
            let h = sub_call::<Option<u32>>(e, &w.c, "has_role", args![e; w.accts[a].clone(), role.clone()]).map_err(|x| violation("C06/api/has_role-failed", x))?;
            ensure!(h == d.has[r][a], "C06/api/has_role-mismatch", "entry point {:?} vs bulk read {:?}", h, d.has[r][a]);
        }
        if full {
            for i in 0..d.count[r] {
                let mm = sub_call::<Address>(e, &w.c, "get_role_member", args![e; role.clone(), i]).map_err(|x| violation("C06/api/get_role_member-failed", x))?;
                ensure!(mm == d.members[r][i as usize], "C06/api/get_role_member-mismatch", "role {} index {i}", w.role_names[r]);
            }
            let ra = sub_call::<Option<Symbol>>(e, &w.c, "get_role_admin", args![e; role.clone()]).map_err(|x| violation("C06/api/get_role_admin-failed", x))?;
            ensure!(ra == d.role_admin[r], "C06/api/get_role_admin-mismatch", "role {}", w.role_names[r]);
        }
    }
    if full {
        let ex = sub_call::<SVec<Symbol>>(e, &w.c, "get_existing_roles", args![e]).map_err(|x| violation("C06/api/get_existing_roles-failed", x))?;
        let ex: Vec<Symbol> = ex.iter().collect();
        ensure!(ex == d.existing, "C06/api/get_existing_roles-mismatch", "entry point and bulk read differ");
    }
    Ok(())
}

/// a selector that `pick` maps onto index `i` of `n`
fn sel_for(i: usize, n: usize) -> u16 {
    (((i as u32) << 16) / n as u32 + 1).min(u16::MAX as u32) as u16
}

fn has_standing(m: &Model, a: usize) -> bool {
    m.admin == Some(a) || m.pending == Some(a) || m.members.iter().any(|s| s.contains(&a))
}

fn resolve(m: &Model, who: &Who, role: Option<usize>) -> usize {
    let all = NA + 1;
    let nth = |set: &BTreeSet<usize>, sel: u16| -> Option<usize> { set.iter().nth(pick(sel, set.len())).copied().filter(|_| !set.is_empty()) };
    match who {
        Who::Admin => m.admin.unwrap_or(m.last_admin),
        Who::Pending => m.pending.unwrap_or(m.last_offeree),
        Who::Acct(s) => pick(*s, all),
        Who::Stranger => (0..all).rev().find(|a| !has_standing(m, *a)).unwrap_or(NA),
        Who::Member(s) => role.and_then(|r| nth(&m.members[r], *s)).unwrap_or_else(|| pick(*s, all)),
        Who::FormerRoleAdmin(s) => role
            .and_then(|r| m.former_admin.get(r).copied().flatten())
            .and_then(|fr| {
                let mut set = m.members[fr].clone();
                if let Some(a) = m.admin {
                    if set.len() > 1 {
                        set.remove(&a);
                    }
                }
                nth(&set, *s)
            })
            .unwrap_or_else(|| pick(*s, all)),
        Who::RoleAdmin(depth, s) => {
            let mut r = role;
            for _ in 0..=*depth {
                r = r.and_then(|x| m.role_admin.get(x).copied().flatten());
            }
            // prefer a holder who is not the admin itself
            r.and_then(|r| {
                let mut set = m.members[r].clone();
                if let Some(a) = m.admin {
                    if set.len() > 1 {
                        set.remove(&a);
                    }
                }
                nth(&set, *s)
            })
            .unwrap_or_else(|| pick(*s, all))
        }
    }
}

fn resolve_rsel(m: &Model, sel: &RSel) -> usize {
    let by = |s: &u16, f: &dyn Fn(usize) -> bool| -> usize {
        let c: Vec<usize> = (0..NR).filter(|r| f(*r)).collect();
        if c.is_empty() {
            pick(*s, NR)
        } else {
            c[pick(*s, c.len())]
        }
    };
    match sel {
        RSel::Idx(i) => (*i as usize).min(NR - 1),
        RSel::WithAdminRole(s) => by(s, &|r| m.role_admin[r].is_some()),
        RSel::WithoutAdminRole(s) => by(s, &|r| m.role_admin[r].is_none()),
        RSel::Emptied(s) => by(s, &|r| m.count_entry[r] && m.members[r].is_empty()),
        RSel::Populated(s) => by(s, &|r| !m.members[r].is_empty()),
        RSel::NoCounter(s) => by(s, &|r| !m.count_entry[r]),
        RSel::AdminRemoved(s) => by(s, &|r| m.former_admin[r].is_some()),
        RSel::CounterRemoved(s) => by(s, &|r| m.count_removed[r]),
        RSel::SingleMember(s) => by(s, &|r| m.members[r].len() == 1),
    }
}

/// what a guarded probe requires
struct Guard {
    func: &'static str,
    /// None = admin/owner-only; Some(roles) = caller must hold any of them
    roles: Option<Vec<usize>>,
    /// the guard (macro or documented body) demands the principal's authorization
    needs_auth: bool,
}

fn guard(target: Target, kind: u8) -> Guard {
    match target {
        Target::Acl => match kind {
            0 => Guard { func: "p_admin", roles: None, needs_auth: true },
            1 => Guard { func: "p_only_r1", roles: Some(vec![1]), needs_auth: true },
            2 => Guard { func: "p_has_r2", roles: Some(vec![2]), needs_auth: false },
            3 => Guard { func: "p_has_r2_auth", roles: Some(vec![2]), needs_auth: true },
            4 => Guard { func: "p_only_any", roles: Some(vec![1, 3]), needs_auth: true },
            _ => Guard { func: "p_has_any", roles: Some(vec![0, 2]), needs_auth: false },
        },
        Target::Nft => match kind {
            0 => Guard { func: "admin_restricted_function", roles: None, needs_auth: true },
            1 => Guard { func: "mint", roles: Some(vec![1]), needs_auth: true },
            2 => Guard { func: "burn", roles: Some(vec![2]), needs_auth: true },
            3 => Guard { func: "burn_from", roles: Some(vec![2]), needs_auth: true },
            4 => Guard { func: "multi_role_action", roles: Some(vec![1, 2]), needs_auth: true },
            _ => Guard { func: "multi_role_auth_action", roles: Some(vec![1, 2]), needs_auth: true },
        },
        Target::Ownable => Guard { func: "increment", roles: None, needs_auth: true },
    }
}

/// outcome the model predicts for a call
struct Pred {
    /// the statement allows success (safety direction)
    may: bool,
    /// documentation fixes the outcome: Some(must_succeed)
    must: Option<bool>,
}

pub fn run(case: &Case, ctx: &mut Ctx) -> R {
    let max_ttl = if case.small_ttl { 700 } else { envx::BIG_TTL };
    let w = World::setup(case.target, case.seq, max_ttl);
    let e = &w.e;
    let nr = if case.target == Target::Ownable { 0 } else { NR };
    let mut m = Model {
        admin: Some(0),
        members: vec![BTreeSet::new(); nr],
        role_admin: vec![None; nr],
        count_entry: vec![false; nr],
        count_removed: vec![false; nr],
        former_admin: vec![None; nr],
        ..Default::default()
    };
    let mut d = dump(&w)?;
    if case.target == Target::Ownable {
        m.counter = 0;
    }
    check_state(&w, &m, &d, "construction")?;

    // set-up ops are ordinary ops (admin, exact authorization) checked by the same oracle
    let mut ops: Vec<Op> = vec![];
    if nr > 0 {
        for (r, ra) in case.role_admin0.iter().enumerate().take(NR) {
            if let Some(ar) = ra {
                ops.push(Op::SetRoleAdmin { role: r as u8, admin_role: *ar, by: Who::Admin, auth: AuthMode::Exact });
            }
        }
        for (r, mask) in case.members0.iter().enumerate().take(NR) {
            for a in 0..NA {
                if (mask >> a) & 1 == 1 {
                    let sel = sel_for(a, NA);
                    ops.push(Op::Grant { role: r as u8, account: sel, caller: Who::Admin, also: None, auth: AuthMode::Exact });
                }
            }
        }
    }
    let n_setup = ops.len();
    ops.extend(case.ops.iter().cloned());

    let mut swap_pop = false;
    let mut role_admin_grant = false;
    let mut rejected_privileged = false;
    // low-level clean-up entry points (harness Acl): successful / refused clean-up, later grant/revoke attempt on a cleaned role
    let (mut ll_ok, mut ll_refused, mut ll_followup) = (false, false, false);

    for (step, op) in ops.iter().enumerate() {
        let in_setup = step < n_setup;
        if matches!(op, Op::RemoveRoleAdmin { .. } | Op::RemoveRoleCount { .. } | Op::GrantSel { .. } | Op::SeedRole { .. }) && case.target != Target::Acl {
            continue; // only the harness Acl exposes the clean-up entry points
        }
        // GrantSel is an ordinary grant / revoke on a role chosen relative to the model
        let lowered: Op;
        let op: &Op = if let Op::GrantSel { role, account, revoke, caller, auth } = op {
            let r = resolve_rsel(&m, role) as u8;
            lowered = if *revoke {
                Op::Revoke { role: r, account: Who::Member(*account), caller: caller.clone(), also: None, auth: auth.clone() }
            } else {
                Op::Grant { role: r, account: *account, caller: caller.clone(), also: None, auth: auth.clone() }
            };
            &lowered
        } else {
            op
        };
        if let Op::Advance { k } = op {
            envx::advance(e, *k);
            d = dump(&w)?;
            check_state(&w, &m, &d, "advance")?;
            continue;
        }
        let ridx = |r: &u8| (*r as usize).min(NR - 1);
        let addr = |i: usize| w.accts[i].clone();
        // resolve the op into a call, a prediction and a model effect
        enum Effect {
            Grant(usize, usize),
            Remove(usize, usize),
            SetRoleAdmin(usize, usize),
            Offer(Option<usize>),
            Accept,
            RenounceAdmin,
            Probe(Option<(u32, Option<usize>)>),
            RemoveRoleAdmin(usize),
            RemoveRoleCount(usize),
            Seed(usize, Vec<usize>),
        }
        let mut touched_role: Option<usize> = None;
        let mut touched_acct: Option<usize> = None;
        // closure deciding authorization from the attached entries is applied after exec; so first build the call
        let (cl, mode, kind_name): (Call, &AuthMode, &'static str) = match op {
            Op::Advance { .. } | Op::GrantSel { .. } => unreachable!(),
            Op::RemoveRoleAdmin { role, by, auth } | Op::RemoveRoleCount { role, by, auth } => {
                let r = resolve_rsel(&m, role);
                let s = resolve(&m, by, Some(r));
                touched_role = Some(r);
                let f = if matches!(op, Op::RemoveRoleAdmin { .. }) { "remove_role_admin" } else { "remove_role_count" };
                (Call { func: f, args: vec![w.roles[r].clone().into_val(e)], signers: vec![addr(s)] }, auth, f)
            }
            Op::SeedRole { role, by, auth, accounts } => {
                let r = ridx(role);
                let s = resolve(&m, by, Some(r));
                touched_role = Some(r);
                let list: soroban_sdk::Vec<Address> = soroban_sdk::Vec::from_iter(e, accounts.iter().map(|a| addr(pick(*a, NA))));
                (Call { func: "seed_role", args: vec![w.roles[r].clone().into_val(e), list.into_val(e)], signers: vec![addr(s)] }, auth, "seed_role")
            }
            Op::Grant { role, account, caller, auth, .. } => {
                if nr == 0 {
                    continue;
                }
                let r = ridx(role);
                let a = pick(*account, NA);
                let c = resolve(&m, caller, Some(r));
                touched_role = Some(r);
                touched_acct = Some(a);
                (Call { func: "grant_role", args: vec![addr(a).into_val(e), w.roles[r].clone().into_val(e), addr(c).into_val(e)], signers: vec![addr(c)] }, auth, "grant_role")
            }
            Op::Revoke { role, account, caller, auth, .. } => {
                if nr == 0 {
                    continue;
                }
                let r = ridx(role);
                let a = resolve(&m, account, Some(r));
                let c = resolve(&m, caller, Some(r));
                touched_role = Some(r);
                touched_acct = Some(a);
                (Call { func: "revoke_role", args: vec![addr(a).into_val(e), w.roles[r].clone().into_val(e), addr(c).into_val(e)], signers: vec![addr(c)] }, auth, "revoke_role")
            }
            Op::Renounce { role, caller, auth } => {
                if nr == 0 {
                    continue;
                }
                let r = ridx(role);
                let c = resolve(&m, caller, Some(r));
                touched_role = Some(r);
                touched_acct = Some(c);
                (Call { func: "renounce_role", args: vec![w.roles[r].clone().into_val(e), addr(c).into_val(e)], signers: vec![addr(c)] }, auth, "renounce_role")
            }
            Op::SetRoleAdmin { role, admin_role, by, auth } => {
                if nr == 0 {
                    continue;
                }
                let r = ridx(role);
                let ar = ridx(admin_role);
                let s = resolve(&m, by, Some(r));
                touched_role = Some(r);
                (Call { func: "set_role_admin", args: vec![w.roles[r].clone().into_val(e), w.roles[ar].clone().into_val(e)], signers: vec![addr(s)] }, auth, "set_role_admin")
            }
            Op::TransferAdmin { to, live, by, auth } => {
                let s = resolve(&m, by, None);
                let (to_i, until) = match live {
                    LiveSel::Rel(dl) => (pick(*to, NA + 1), (envx::seq(e) as i64 + *dl as i64).max(1) as u32),
                    LiveSel::Cancel(same) => (if *same { m.pending.unwrap_or(m.last_offeree) } else { pick(*to, NA + 1) }, 0u32),
                };
                touched_acct = Some(to_i);
                (Call { func: w.fname("transfer_admin_role"), args: vec![addr(to_i).into_val(e), until.into_val(e)], signers: vec![addr(s)] }, auth, "transfer")
            }
            Op::AcceptAdmin { by, auth } => {
                let s = resolve(&m, by, None);
                (Call { func: w.fname("accept_admin_transfer"), args: vec![], signers: vec![addr(s)] }, auth, "accept")
            }
            Op::RenounceAdmin { by, auth } => {
                let s = resolve(&m, by, None);
                (Call { func: w.fname("renounce_admin"), args: vec![], signers: vec![addr(s)] }, auth, "renounce_admin")
            }
            Op::Probe { kind, role, caller, other, auth, .. } => {
                let g = guard(case.target, *kind);
                let steer = if nr == 0 { None } else { Some(g.roles.as_ref().map(|v| v[*role as usize % v.len()]).unwrap_or(ridx(role))) };
                let c = resolve(&m, caller, steer);
                touched_acct = Some(c);
                let args: Vec<Val> = match (case.target, g.func) {
                    (_, "p_admin") | (_, "admin_restricted_function") | (_, "increment") => vec![],
                    (Target::Nft, "mint") => {
                        let to = pick(*other, NA + 1);
                        vec![addr(to).into_val(e), m.next_token.into_val(e), addr(c).into_val(e)]
                    }
                    (Target::Nft, "burn") => {
                        // a token of the caller when there is one, else a token of somebody else / none
                        let own: Vec<u32> = m.tokens.iter().filter(|(_, o)| **o == c).map(|(t, _)| *t).collect();
                        let tok = if !own.is_empty() { own[pick(*other, own.len())] } else { m.tokens.keys().next().copied().unwrap_or(9999) };
                        vec![addr(c).into_val(e), tok.into_val(e)]
                    }
                    (Target::Nft, "burn_from") => {
                        let all: Vec<(u32, usize)> = m.tokens.iter().map(|(t, o)| (*t, *o)).collect();
                        let (tok, owner) = if all.is_empty() { (9999, c) } else { all[pick(*other, all.len())] };
                        vec![addr(c).into_val(e), addr(owner).into_val(e), tok.into_val(e)]
                    }
                    _ => vec![addr(c).into_val(e)],
                };
                (Call { func: g.func, args, signers: vec![addr(c)] }, auth, "probe")
            }
        };

        let mut cl = cl;
        if let Op::Grant { also: Some(x), .. } | Op::Revoke { also: Some(x), .. } | Op::Probe { also: Some(x), .. } = op {
            let extra = addr(resolve(&m, x, touched_role));
            if !cl.signers.contains(&extra) {
                cl.signers.push(extra);
                ctx.class("second_exact_signer");
            }
        }
        let (res, attached) = exec(e, &w.c, &cl, mode, &w.accts);
        let authd = |i: usize| attached.contains(&w.accts[i]);
        let admin_authd = m.admin.map(|a| authd(a)).unwrap_or(false);

        // model prediction
        let (pred, effect): (Pred, Effect) = match op {
            Op::Grant { .. } | Op::Revoke { .. } => {
                let r = touched_role.unwrap();
                let a = touched_acct.unwrap();
                let c = w.idx(&cl.signers[0]).unwrap();
                let standing = m.admin == Some(c) || m.role_admin[r].map(|ar| m.members[ar].contains(&c)).unwrap_or(false);
                let ok_auth = authd(c) && standing;
                if matches!(op, Op::Grant { .. }) {
                    (Pred { may: ok_auth, must: Some(ok_auth) }, Effect::Grant(r, a))
                } else {
                    let held = m.members[r].contains(&a);
                    (Pred { may: ok_auth && held, must: Some(ok_auth && held) }, Effect::Remove(r, a))
                }
            }
            Op::Renounce { .. } => {
                let r = touched_role.unwrap();
                let c = touched_acct.unwrap();
                let ok = authd(c) && m.members[r].contains(&c);
                (Pred { may: ok, must: Some(ok) }, Effect::Remove(r, c))
            }
            Op::SetRoleAdmin { admin_role, .. } => (Pred { may: admin_authd, must: Some(admin_authd) }, Effect::SetRoleAdmin(touched_role.unwrap(), ridx(admin_role))),
            Op::TransferAdmin { live, .. } => {
                // the lifetime rules of the offer are C07's subject: safety only
                let to = touched_acct.unwrap();
                let eff = match live {
                    LiveSel::Cancel(_) => Effect::Offer(None),
                    LiveSel::Rel(_) => Effect::Offer(Some(to)),
                };
                (Pred { may: admin_authd, must: if admin_authd { None } else { Some(false) } }, eff)
            }
            Op::AcceptAdmin { .. } => {
                let ok = m.admin.is_some() && m.pending.map(|p| authd(p)).unwrap_or(false);
                (Pred { may: ok, must: if ok { None } else { Some(false) } }, Effect::Accept)
            }
            Op::RenounceAdmin { .. } => {
                // refused while an offer is pending (C07); without any offer ever made the docs fix success
                let must = if !admin_authd { Some(false) } else if m.pending.is_none() { Some(true) } else { None };
                (Pred { may: admin_authd, must }, Effect::RenounceAdmin)
            }
            Op::Probe { kind, .. } => {
                let g = guard(case.target, *kind);
                let c = touched_acct.unwrap();
                match &g.roles {
                    None => (Pred { may: admin_authd, must: Some(admin_authd) }, Effect::Probe(None)),
                    Some(rs) => {
                        let member = rs.iter().any(|r| m.members[*r].contains(&c));
                        let gate = member && (!g.needs_auth || authd(c));
                        match g.func {
                            "mint" => {
                                let to = w.idx(&Address::try_from_val(e, &cl.args[0]).unwrap()).unwrap();
                                (Pred { may: gate, must: Some(gate) }, Effect::Probe(Some((m.next_token, Some(to)))))
                            }
                            "burn" => {
                                let tok = u32::try_from_val(e, &cl.args[1]).unwrap();
                                let owns = m.tokens.get(&tok) == Some(&c);
                                (Pred { may: gate && owns, must: Some(gate && owns) }, Effect::Probe(Some((tok, None))))
                            }
                            "burn_from" => {
                                let tok = u32::try_from_val(e, &cl.args[2]).unwrap();
                                let owner = w.idx(&Address::try_from_val(e, &cl.args[1]).unwrap()).unwrap();
                                let exists = m.tokens.get(&tok) == Some(&owner);
                                // approvals are not modelled: only the owner itself is known to be approved
                                let must = if !(gate && exists) { Some(false) } else if owner == c { Some(true) } else { Some(false) };
                                (Pred { may: gate && exists, must }, Effect::Probe(Some((tok, None))))
                            }
                            _ => (Pred { may: gate, must: Some(gate) }, Effect::Probe(None)),
                        }
                    }
                }
            }
            Op::RemoveRoleAdmin { .. } => {
                // documented: "Removes the admin role for a specified role"; what happens when none is set is
                // not documented (counted, not asserted)
                let r = touched_role.unwrap();
                let must = if !admin_authd { Some(false) } else if m.role_admin[r].is_some() { Some(true) } else { None };
                (Pred { may: admin_authd, must }, Effect::RemoveRoleAdmin(r))
            }
            Op::RemoveRoleCount { .. } => {
                // documented: removes the counter "when cleaning up unused roles with zero members";
                // the entry exists once the role was granted and remains (at 0) when the role is emptied
                let r = touched_role.unwrap();
                let okc = admin_authd && m.count_entry[r] && m.members[r].is_empty();
                (Pred { may: admin_authd, must: Some(okc) }, Effect::RemoveRoleCount(r))
            }
            Op::SeedRole { accounts, .. } => {
                // #[only_admin]; the low-level grant itself is documented to skip accounts that already hold the role
                let r = touched_role.unwrap();
                (Pred { may: admin_authd, must: Some(admin_authd) }, Effect::Seed(r, accounts.iter().map(|a| pick(*a, NA)).collect()))
            }
            Op::Advance { .. } | Op::GrantSel { .. } => unreachable!(),
        };
        if case.target == Target::Nft && cl.func == "mint" {
            m.next_token += 1; // every attempt uses a fresh id
        }

        let ok = res.is_ok();
        ctx.op(ok);
        let what = format!("step {step} {}({:?}) signers-attached={:?}", cl.func, op, attached.iter().map(|a| w.idx(a)).collect::<Vec<_>>());
        let fname = match kind_name {
            "probe" => format!("probe:{}", cl.func),
            "transfer" => "transfer_admin_role".to_string(),
            "accept" => "accept_admin_transfer".to_string(),
            x => x.to_string(),
        };
        if let (true, true, Effect::RemoveRoleCount(r)) = (ok, pred.may, &effect) {
            ensure!(m.members[*r].is_empty(), "C06/remove_role_count/nonzero-count-removed", "{what}: the member counter of a role with members {:?} was removed", m.members[*r]);
            ensure!(m.count_entry[*r], "C06/remove_role_count/absent-counter-accepted", "{what}: succeeded although the role has no member counter (never granted / already removed)");
        }
        if matches!(op, Op::Grant { .. } | Op::Revoke { .. }) {
            let r = touched_role.unwrap();
            if (m.former_admin[r].is_some() && m.role_admin[r].is_none()) || m.count_removed[r] {
                ll_followup = true;
            }
            if let (Some(fa), None, Some(c)) = (m.former_admin[r], m.role_admin[r], w.idx(&cl.signers[0])) {
                if m.members[fa].contains(&c) && m.admin != Some(c) && authd(c) {
                    // a holder of the removed admin role authorizes: the model forbids success (checked below)
                    ctx.class(if ok { "former_role_admin_accepted" } else { "former_role_admin_refused" });
                } else if m.admin == Some(c) && ok {
                    ctx.class("admin_manages_role_without_admin_role");
                }
            }
        }
        if ok && !pred.may {
            let clause = if m.renounced && matches!(op, Op::SetRoleAdmin { .. } | Op::TransferAdmin { .. } | Op::AcceptAdmin { .. } | Op::RenounceAdmin { .. } | Op::RemoveRoleAdmin { .. } | Op::RemoveRoleCount { .. } | Op::SeedRole { .. })
                || (m.renounced && matches!(op, Op::Probe{kind, ..} if guard(case.target, *kind).roles.is_none()))
            {
                "succeeded-after-renounce"
            } else {
                "unauthorized-succeeded"
            };
            bail!(format!("C06/{fname}/{clause}"), "{what}: succeeded although the model forbids it (admin {:?}, pending {:?}, members {:?}, role_admin {:?})", m.admin, m.pending, m.members, m.role_admin);
        }
        if let Some(must) = pred.must {
            if must && !ok {
                bail!(format!("C06/{fname}/authorized-refused"), "{what}: refused ({:?}) although the documented conditions hold (admin {:?}, members {:?}, role_admin {:?})", res, m.admin, m.members, m.role_admin);
            }
            if !must && ok {
                bail!(format!("C06/{fname}/unexpected-success"), "{what}: succeeded although the documented preconditions do not hold");
            }
        }
        if in_setup {
            ensure!(ok, "C06/setup/failed", "{what}: set-up call by the admin failed: {:?}", res);
        }
        if !ok {
            rejected_privileged = true;
        }

        // apply the effect
        let d_before = d.clone();
        if ok {
            match effect {
                Effect::Grant(r, a) => {
                    let c = w.idx(&cl.signers[0]).unwrap();
                    let new = m.members[r].insert(a);
                    if new && m.admin != Some(c) {
                        role_admin_grant = true;
                        ctx.class("grant_by_role_admin");
                    }
                    if new {
                        m.count_entry[r] = true;
                        if m.count_removed[r] {
                            m.count_removed[r] = false;
                            ctx.class("regrant_after_count_removed");
                        }
                    }
                }
                Effect::Remove(r, a) => {
                    if let Some(i) = d_before.has[r][a] {
                        if i + 1 != d_before.count[r] {
                            swap_pop = true;
                            ctx.class("remove_non_last_index");
                        }
                    }
                    m.members[r].remove(&a);
                    if m.members[r].is_empty() {
                        ctx.class("role_emptied");
                    }
                    let c = w.idx(&cl.signers[0]).unwrap();
                    if matches!(op, Op::Revoke { .. }) && m.admin != Some(c) {
                        ctx.class("revoke_by_role_admin");
                    }
                }
                Effect::SetRoleAdmin(r, ar) => {
                    m.role_admin[r] = Some(ar);
                    m.former_admin[r] = None;
                    if ar == r {
                        ctx.class("self_admin_role");
                    } else if m.role_admin[ar] == Some(r) {
                        ctx.class("role_admin_cycle");
                    }
                }
                Effect::Offer(p) => {
                    m.pending = p;
                    if let Some(p) = p {
                        m.last_offeree = p;
                    }
                }
                Effect::Accept => {
                    m.admin = m.pending;
                    m.last_admin = m.admin.unwrap_or(m.last_admin);
                    m.pending = None;
                    ctx.class("admin_changed_hands");
                }
                Effect::RenounceAdmin => {
                    m.admin = None;
                    m.pending = None;
                    m.renounced = true;
                    ctx.class("admin_renounced");
                }
                Effect::RemoveRoleAdmin(r) => {
                    ll_ok = true;
                    match m.role_admin[r].take() {
                        Some(ar) => {
                            m.former_admin[r] = Some(ar);
                            ctx.class("remove_role_admin_ok");
                            if !m.members[ar].is_empty() {
                                ctx.class("remove_role_admin_ok_with_holders");
                            }
                        }
                        None => ctx.class("remove_role_admin_absent_accepted"),
                    }
                }
                Effect::Seed(r, list) => {
                    let mut seen = BTreeSet::new();
                    for a in list {
                        if !seen.insert(a) {
                            ctx.class("seed_role_duplicate_in_list");
                        }
                        if !m.members[r].insert(a) {
                            ctx.class("seed_role_names_current_member");
                        } else {
                            m.count_entry[r] = true;
                            m.count_removed[r] = false;
                        }
                    }
                    ctx.class("seed_role_ok");
                }
                Effect::RemoveRoleCount(r) => {
                    ll_ok = true;
                    m.count_entry[r] = false;
                    m.count_removed[r] = true;
                    ctx.class("remove_role_count_ok");
                }
                Effect::Probe(tok) => {
                    ctx.class("probe_passed");
                    match case.target {
                        Target::Nft => match tok {
                            Some((id, Some(to))) => {
                                m.tokens.insert(id, to);
                            }
                            Some((id, None)) => {
                                m.tokens.remove(&id);
                            }
                            None => {}
                        },
                        _ => {
                            m.counter += 1;
                            // the privileged effect's own report
                            let got = res.as_ref().ok().and_then(|v| u32::try_from_val(e, v).ok().or_else(|| i32::try_from_val(e, v).ok().map(|x| x as u32)));
                            ensure!(got == Some(m.counter), "C06/probe/return-mismatch", "{what}: returned {:?}, expected counter {}", got, m.counter);
                        }
                    }
                }
            }
        } else if matches!(op, Op::Probe { .. }) {
            ctx.class("probe_refused");
            if m.renounced {
                ctx.class("probe_refused_after_renounce");
            }
        } else if let Effect::RemoveRoleAdmin(r) = effect {
            ll_refused = true;
            ctx.class(if !admin_authd { "remove_role_admin_refused_unauth" } else if m.role_admin[r].is_none() { "remove_role_admin_absent_refused" } else { "remove_role_admin_refused_other" });
        } else if let Effect::RemoveRoleCount(r) = effect {
            ll_refused = true;
            ctx.class(if !admin_authd {
                "remove_role_count_refused_unauth"
            } else if !m.members[r].is_empty() {
                "remove_role_count_refused_nonzero"
            } else {
                "remove_role_count_refused_absent"
            });
        }
        d = dump(&w)?;
        if !ok {
            ensure!(d == d_before, "C06/failed-call/state-changed", "{what}: failed but the observable state changed: {:?} -> {:?}", d_before, d);
        }
        check_state(&w, &m, &d, &what)?;
        let tr: Vec<usize> = touched_role.into_iter().collect();
        let ta: Vec<usize> = touched_acct.into_iter().collect();
        check_api(&w, &d, &tr, &ta, false)?;
        match mode {
            AuthMode::Exact => ctx.class("auth_exact"),
            AuthMode::Surplus(_) => ctx.class("auth_surplus"),
            _ => ctx.class("auth_defective"),
        }
    }
    // final sweep through the public entry points
    let all_r: Vec<usize> = (0..nr).collect();
    let all_a: Vec<usize> = (0..=NA).collect();
    check_api(&w, &d, &all_r, &all_a, true)?;
    if m.renounced {
        ctx.class("history_with_renounce");
    }
    let nontrivial = if case.target == Target::Ownable { rejected_privileged && ctx.seen("probe_passed") > 0 } else { swap_pop && role_admin_grant && rejected_privileged };
    if nontrivial {
        ctx.nontrivial = true;
        ctx.class("nontrivial");
    }
    if ll_ok && ll_refused && ll_followup {
        ctx.class("lowlevel_nontrivial");
    }
    Ok(())
}

// ------------------------------------------------------------------ MAX_ROLES boundary (deterministic)

fn max_roles_slabs(_t: Tier) -> u64 {
    1
}

fn run_max_roles(_tier: Tier, _slab: u64, ctx: &mut Ctx, out: &mut FixedOut) -> R {
    let w = World::setup(Target::Acl, 100, envx::BIG_TTL);
    let e = &w.e;
    let admin = w.accts[0].clone();
    let limit = ac::MAX_ROLES;
    out.evaluations = 1;
    let grant = |role: &str, acct: usize| -> Result<Val, String> {
        let cl = Call {
            func: "grant_role",
            args: vec![w.accts[acct].clone().into_val(e), Symbol::new(e, role).into_val(e), admin.clone().into_val(e)],
            signers: vec![admin.clone()],
        };
        exec(e, &w.c, &cl, &AuthMode::Exact, &w.accts).0
    };
    let existing = || -> Result<Vec<Symbol>, Violation> {
        let v = call_t::<SVec<Symbol>>(e, &w.c, "get_existing_roles", args![e]).map_err(|x| violation("C06/max_roles/get_existing_roles-failed", x))?;
        Ok(v.iter().collect())
    };
    for i in 0..limit {
        let name = format!("role_{i}");
        let r = grant(&name, 1);
        out.failing = Some(json!({"granting": name}));
        ensure!(r.is_ok(), "C06/max_roles/within-limit-refused", "role number {} (of documented maximum {limit}) refused: {:?}", i + 1, r);
        ctx.op(true);
    }
    let ex = existing()?;
    let set: BTreeSet<String> = ex.iter().map(|s| format!("{s:?}")).collect();
    ensure!(ex.len() as u32 == limit && set.len() as u32 == limit, "C06/max_roles/existing-roles-size", "{} roles listed ({} distinct) after {limit} grants", ex.len(), set.len());
    let r = grant("one_too_many", 1);
    ctx.op(r.is_ok());
    ensure!(r.is_err(), "C06/max_roles/limit-not-enforced", "role number {} was created", limit + 1);
    // at the limit an existing role can still get members
    let r = grant("role_7", 2);
    ensure!(r.is_ok(), "C06/max_roles/member-of-existing-role-refused", "{:?}", r);
    // emptying a role frees its slot
    let cl = Call { func: "renounce_role", args: vec![Symbol::new(e, "role_17").into_val(e), w.accts[1].clone().into_val(e)], signers: vec![w.accts[1].clone()] };
    let r = exec(e, &w.c, &cl, &AuthMode::Exact, &w.accts).0;
    ensure!(r.is_ok(), "C06/max_roles/renounce-failed", "{:?}", r);
    let ex = existing()?;
    ensure!(ex.len() as u32 == limit - 1 && !ex.contains(&Symbol::new(e, "role_17")), "C06/existing_roles/mismatch", "emptied role still listed ({} roles)", ex.len());
    let r = grant("one_too_many", 1);
    ensure!(r.is_ok(), "C06/max_roles/freed-slot-refused", "{:?}", r);
    let ex = existing()?;
    let set: BTreeSet<String> = ex.iter().map(|s| format!("{s:?}")).collect();
    ensure!(ex.len() as u32 == limit && set.len() as u32 == limit, "C06/max_roles/existing-roles-size", "{} roles listed after refill", ex.len());
    ctx.class("max_roles_boundary");
    ctx.nontrivial = true;
    out.nontrivial.push(hash_str("max-roles"));
    Ok(())
}

// ------------------------------------------------------------------ property

macro_rules! target_sub {
    ($name:expr, $t:expr, $q:expr, $th:expr) => {{
        fn strat(tier: Tier) -> BoxedStrategy<Case> {
            strategy_for($t, tier)
        }
        gen_sub::<Case>($name, $q, $th, strat, run)
    }};
}

fn run_stacked_principal(case: &super::c16::SgCase, ctx: &mut Ctx) -> R {
    super::c16::run_stacked_mode(case, ctx, true)
}

pub fn property() -> Property {
    Property {
        id: "C06",
        rule: Box::leak(format!("{} {}", "case = (target in {harness Acl, example nft-access-control, example ownable}, start ledger, initial role-admin wiring and memberships applied through the \
               public entry points, history of <=40 (thorough 80) ops grant/revoke/renounce_role/set_role_admin/transfer_admin/accept/renounce_admin/guarded probe/advance over 5 roles (one of them named by the EMPTY symbol, the library's \"no admin role\" placeholder) and \
               5+1 accounts, caller by model-relative selector, auth mode Exact/Drop/Swap/Tamper/Surplus; harness Acl only, ~10% of the history items: the admin-guarded clean-up entry points \
               remove_role_admin / remove_role_count (wiring remove_role_admin_no_auth / remove_role_accounts_count_no_auth) on state-relative roles (with/without admin role, emptied, populated, \
               without counter), follow-up grant/revoke by a holder of the removed admin role / the admin, re-grant after counter removal, singly or as short scripts; \
               harness Acl also: seed_role(role, list) = grant_role_no_auth over a list with duplicates / current members; lowlevel_nontrivial = >=1 successful and >=1 refused clean-up call and >=1 later grant/revoke attempt on a cleaned role); non-trivial = >=1 successful revoke/renounce of a non-last index, >=1 successful \
               grant by a role-admin holder who is not the admin and >=1 rejected privileged call (ownable: >=1 passed and >=1 rejected owner-guarded call; stacked-guards: only_owner / only_admin / only_role stacked with when_not_paused / when_paused in both orders on a harness contract, >=2 calls refused for a wrong or unauthorized principal while the pause gate was open and >=1 passed); distinct = distinct serialised case", super::c06b::RULE).into_boxed_str()),
        subs: vec![
            target_sub!("acl", Target::Acl, 1200, 20000),
            target_sub!("nft-access-control", Target::Nft, 900, 14000),
            target_sub!("ownable", Target::Ownable, 400, 6000),
            Box::new(Fixed { name: "max-roles", slabs: max_roles_slabs, run: run_max_roles }),
            // the guard macros stacked with the pause guards, in both orders: the principal half of the C16 harness contract
            gen_sub::<super::c16::SgCase>("stacked-guards", 600, 12000, super::c16::sg_strategy_pub, run_stacked_principal),
            // every guarded entry point of every linkable example contract x six authorization variants (props/c06b.rs)
            gen_sub::<super::c06b::GCase>("example-guards", 1200, 24000, super::c06b::strategy, super::c06b::run),
        ],
        floors: vec![
            ("nontrivial", 55, 550),
            ("remove_non_last_index", 120, 1200),
            ("grant_by_role_admin", 60, 600),
            ("revoke_by_role_admin", 50, 500),
            ("role_admin_cycle", 40, 400),
            ("self_admin_role", 140, 1400),
            ("role_emptied", 50, 500),
            ("admin_changed_hands", 15, 150),
            ("probe_passed", 400, 4000),
            ("probe_refused_after_renounce", 200, 2000),
            ("auth_defective", 2000, 20000),
            ("max_roles_boundary", 1, 1),
            // low-level clean-up entry points of the harness Acl (measured over seeds 0..3, quick scale 9)
            ("lowlevel_nontrivial", 15, 150),
            ("seed_role_ok", 12, 120),
            ("seed_role_duplicate_in_list", 12, 120),
            ("seed_role_names_current_member", 20, 200),
            ("remove_role_admin_ok", 18, 180),
            ("remove_role_admin_refused_unauth", 30, 300),
            ("former_role_admin_refused", 8, 80),
            ("admin_manages_role_without_admin_role", 13, 130),
            ("remove_role_count_ok", 9, 90),
            ("remove_role_count_refused_nonzero", 24, 240),
            ("remove_role_count_refused_absent", 9, 90),
            ("remove_role_count_refused_unauth", 45, 450),
            ("regrant_after_count_removed", 5, 50),
        ]
        .into_iter()
        .chain(super::c06b::floors())
        .collect(),
        assumptions: vec![
            "Soroban native test host (storage, rollback of failed invocations, authorization matching) is trusted",
            "an address authorizes a call iff an authorization entry of that address for exactly this invocation is attached (accept-all account contracts)",
            "#[has_role] / #[has_any_role] check membership without require_auth, as documented; lifetime rules of admin/ownership offers are C07's subject (safety only here)",
            "remove_role_count: a role's member counter exists from its first grant on and remains (at 0) when the role is emptied (module docs); removal succeeds iff the admin authorizes and the counter exists and is 0. remove_role_admin when no admin role is set: outcome not documented, counted only",
        ],
    }
}

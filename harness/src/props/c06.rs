//! C06 — not implemented yet.
use crate::engine::*;

pub fn property() -> Property {
    Property { id: "C06", rule: "", subs: vec![], floors: vec![], assumptions: vec![] }
}

//! C18 — not implemented yet.
use crate::engine::*;

pub fn property() -> Property {
    Property { id: "C18", rule: "", subs: vec![], floors: vec![], assumptions: vec![] }
}

//! C18 — Signature verifiers accept exactly genuine, well-formed assertions.
//!
//! Sub-checks
//! * `webauthn`   genuine WebAuthn assertions produced independently (`p256`, `sha2`), every
//!                re-signed semantic variant (flags, type, challenge, authenticator-data length,
//!                client-data length, wrong signed message) and unsigned single-bit corruptions,
//!                through `VerifierLib.webauthn_verify` (library) and the example verifier contract.
//! * `ed25519`    genuine Ed25519 signatures (`ed25519-dalek`) and corruptions, library + example.
//! * `b64-lattice` / `b64-random`  encoder differential against the `base64` crate and an own
//!                RFC 4648 §5 encoder.
//! * `extract`    `extract_from_bytes` against slice semantics.
//!
//! Oracle: accepted ⇔ genuine ∧ all stated conditions; rejection = `false` or any failure.
//! Domain (DESIGN §7): 32-byte payloads, flat client-data JSON without escapes, client data
//! ≤ 1024 bytes (`CLIENT_DATA_MAX_LEN`, "exceeds" ⇒ 1024 itself is accepted), low-S signatures.

use crate::contracts::c18::verifier_lib::{VerifierLib, B64_DST, B64_SENTINEL};
use crate::engine::*;
use crate::envx;
use crate::examples::ed25519_verifier::contract::Ed25519VerifierContract;
use crate::examples::webauthn_verifier::contract::WebauthnVerifierContract;
use crate::gen::pick;
use base64::Engine as _;
use p256::ecdsa::signature::Signer as _;
use proptest::prelude::*;
use serde::{Deserialize, Serialize};
use serde_json::json;
use sha2::{Digest, Sha256};
use soroban_sdk::xdr::ToXdr;
use soroban_sdk::{Address, Bytes, BytesN, Env};
use stellar_accounts::verifiers::webauthn::WebAuthnSigData;

const UP: u8 = 0x01;
const UV: u8 = 0x04;
const BE: u8 = 0x08;
const BS: u8 = 0x10;
/// documented bound (`CLIENT_DATA_MAX_LEN`): "client data exceeds the maximum allowed length" is refused
const CD_MAX: usize = 1024;
const AUTH_MIN: usize = 37;

// ------------------------------------------------------------------ reference encoders

/// own RFC 4648 §5 encoder (bit-stream formulation, no padding)
pub fn ref_b64url(src: &[u8]) -> Vec<u8> {
    let mut alphabet: Vec<u8> = vec![];
    alphabet.extend(b'A'..=b'Z');
    alphabet.extend(b'a'..=b'z');
    alphabet.extend(b'0'..=b'9');
    alphabet.push(b'-');
    alphabet.push(b'_');
    let mut out = Vec::with_capacity(src.len() * 4 / 3 + 2);
    let (mut acc, mut nbits) = (0u32, 0u32);
    for &b in src {
        acc = (acc << 8) | b as u32;
        nbits += 8;
        while nbits >= 6 {
            nbits -= 6;
            out.push(alphabet[((acc >> nbits) & 63) as usize]);
        }
        acc &= (1 << nbits) - 1;
    }
    if nbits > 0 {
        out.push(alphabet[((acc << (6 - nbits)) & 63) as usize]);
    }
    out
}

fn crate_b64url(src: &[u8]) -> Vec<u8> {
    base64::engine::general_purpose::URL_SAFE_NO_PAD.encode(src).into_bytes()
}
fn crate_b64std(src: &[u8]) -> String {
    base64::engine::general_purpose::STANDARD_NO_PAD.encode(src)
}

fn sha256(b: &[u8]) -> [u8; 32] {
    let mut h = Sha256::new();
    h.update(b);
    h.finalize().into()
}

// ------------------------------------------------------------------ WebAuthn case

#[derive(Clone, Debug, Serialize, Deserialize, PartialEq)]
pub enum Extra {
    Origin(String),
    CrossOrigin(bool),
    /// unknown string member (name index into `UNKNOWN_NAMES`, value)
    Str(u8, String),
    /// unknown boolean member
    Bool(u8, bool),
}

const UNKNOWN_NAMES: &[&str] = &[
    "other_keys_can_be_added_here",
    "topOrigin",
    "androidPackageName",
    "x",
    "Type",
    "types",
    "typ",
    "Challenge",
    "challeng",
    "challenge2",
    "",
];
const PAD_NAME: &str = "pad";

#[derive(Clone, Copy, Debug, Serialize, Deserialize, PartialEq)]
pub enum LenSel {
    /// no padding member
    Natural,
    /// padded to exactly this many bytes (≤ 1024)
    Pad(u16),
}

#[derive(Clone, Copy, Debug, Serialize, Deserialize, PartialEq)]
pub enum Part {
    Payload,
    Key,
    Sig,
    Auth,
    AuthFlags,
    ClientAny,
    ClientType,
    ClientChallenge,
}

#[derive(Clone, Copy, Debug, Serialize, Deserialize)]
pub struct Flip {
    pub part: Part,
    pub pos: u16,
    pub bit: u8,
}

#[derive(Clone, Debug, Serialize, Deserialize)]
pub struct WaCase {
    pub payload: Vec<u8>,
    pub other_payload: Vec<u8>,
    pub key_seed: Vec<u8>,
    pub rp_hash: Vec<u8>,
    /// flag bits other than UP/UV/BE/BS (RFU, AT, ED) — ignored by the documented checks
    pub flags_rest: u8,
    /// backup state of the genuine assertion: 0 BE=0,BS=0; 1 BE=1,BS=0; 2 BE=1,BS=1
    pub backup: u8,
    pub counter: u32,
    pub ext: Vec<u8>,
    pub extras: Vec<Extra>,
    pub order: Vec<u16>,
    pub ws: u8,
    pub len: LenSel,
    pub pad_fill: u8,
    pub cred_id: Vec<u8>,
    pub over: u16,
    pub short_auth: Vec<u16>,
    pub short_payload: u16,
    pub trunc: u16,
    pub flips: Vec<Flip>,
}

fn json_text(max: usize) -> BoxedStrategy<String> {
    // printable ASCII without '"' and '\\' (no escape sequences, DESIGN §7)
    let chars: Vec<char> = (0x20u8..0x7f).filter(|c| *c != b'"' && *c != b'\\').map(|c| c as char).collect();
    proptest::collection::vec(proptest::sample::select(chars), 0..=max).prop_map(|v| v.into_iter().collect()).boxed()
}

fn extra_strategy() -> BoxedStrategy<Extra> {
    prop_oneof![
        3 => prop_oneof![
            2 => Just("https://example.com".to_string()),
            1 => Just("http://localhost:3000".to_string()),
            2 => json_text(60),
        ].prop_map(Extra::Origin),
        3 => any::<bool>().prop_map(Extra::CrossOrigin),
        2 => (0u8..UNKNOWN_NAMES.len() as u8, prop_oneof![
            3 => json_text(40),
            1 => Just("webauthn.create".to_string()),
            1 => Just("do not compare clientDataJSON against a template. See https://goo.gl/yabPex".to_string()),
        ]).prop_map(|(n, s)| Extra::Str(n, s)),
        1 => (0u8..UNKNOWN_NAMES.len() as u8, any::<bool>()).prop_map(|(n, b)| Extra::Bool(n, b)),
    ]
    .boxed()
}

fn bytes_n(n: usize) -> BoxedStrategy<Vec<u8>> {
    prop_oneof![
        8 => proptest::collection::vec(any::<u8>(), n..=n),
        1 => (any::<u8>()).prop_map(move |b| vec![b; n]),
        1 => prop_oneof![Just(0u8), Just(0xffu8), Just(0xfbu8)].prop_map(move |b| vec![b; n]),
    ]
    .boxed()
}

fn flip_strategy() -> BoxedStrategy<Vec<Flip>> {
    fn f(part: Part) -> BoxedStrategy<Flip> {
        (any::<u16>(), 0u8..8).prop_map(move |(pos, bit)| Flip { part, pos, bit }).boxed()
    }
    (
        proptest::collection::vec(f(Part::Payload), 2),
        proptest::collection::vec(f(Part::Key), 2),
        proptest::collection::vec(f(Part::Sig), 2),
        proptest::collection::vec(f(Part::Auth), 2),
        f(Part::AuthFlags),
        proptest::collection::vec(f(Part::ClientAny), 2),
        f(Part::ClientType),
        f(Part::ClientChallenge),
    )
        .prop_map(|(a, b, c, d, e, g, h, i)| {
            let mut v = vec![];
            v.extend(a);
            v.extend(b);
            v.extend(c);
            v.extend(d);
            v.push(e);
            v.extend(g);
            v.push(h);
            v.push(i);
            v
        })
        .boxed()
}

fn wa_strategy(_tier: Tier) -> BoxedStrategy<WaCase> {
    let len = prop_oneof![
        3 => Just(LenSel::Natural),
        2 => (300u16..1000).prop_map(LenSel::Pad),
        1 => (1000u16..=1021).prop_map(LenSel::Pad),
        1 => Just(LenSel::Pad(1022)),
        2 => Just(LenSel::Pad(1023)),
        3 => Just(LenSel::Pad(1024)),
    ];
    let a = (bytes_n(32), bytes_n(32), bytes_n(32), bytes_n(32), any::<u8>(), 0u8..3, prop_oneof![Just(0u32), Just(u32::MAX), any::<u32>()]);
    let b = (
        proptest::collection::vec(any::<u8>(), 0..=60),
        proptest::collection::vec(extra_strategy(), 0..=4),
        proptest::collection::vec(any::<u16>(), 8),
        0u8..4,
        len,
        any::<u8>(),
        proptest::collection::vec(any::<u8>(), 0..=40),
    );
    let c = (any::<u16>(), proptest::collection::vec(any::<u16>(), 2), any::<u16>(), any::<u16>(), flip_strategy());
    (a, b, c)
        .prop_map(|((payload, other_payload, key_seed, rp_hash, fr, backup, counter), (ext, extras, order, ws, len, pad_fill, cred_id), (over, short_auth, short_payload, trunc, flips))| {
            WaCase {
                payload,
                other_payload,
                key_seed,
                rp_hash,
                flags_rest: fr & !(UP | UV | BE | BS),
                backup,
                counter,
                ext,
                extras,
                order,
                ws,
                len,
                pad_fill,
                cred_id,
                over,
                short_auth,
                short_payload,
                trunc,
                flips,
            }
        })
        .boxed()
}

// ------------------------------------------------------------------ client data builder

#[derive(Clone, Debug)]
enum Member {
    Type,
    Challenge,
    Extra(usize),
    Pad,
}

struct Layout<'a> {
    members: Vec<Member>,
    extras: &'a [Extra],
    ws: u8,
    fill: u8,
}

#[derive(Default, Clone)]
struct Built {
    bytes: Vec<u8>,
    /// byte span of the type value (without quotes) and of the challenge value
    type_span: (usize, usize),
    chal_span: (usize, usize),
}

impl<'a> Layout<'a> {
    fn new(case: &'a WaCase) -> Layout<'a> {
        // drop duplicate member names (a JSON object with duplicate names is outside the flat domain)
        let mut names: Vec<String> = vec!["type".into(), "challenge".into(), PAD_NAME.into()];
        let mut members = vec![Member::Type, Member::Challenge];
        for (i, x) in case.extras.iter().enumerate() {
            let name = extra_name(x);
            if names.iter().any(|n| n == name) {
                continue;
            }
            names.push(name.to_string());
            members.push(Member::Extra(i));
        }
        members.push(Member::Pad);
        // Fisher–Yates driven by generated selectors
        let n = members.len();
        for i in 0..n {
            let sel = case.order.get(i).copied().unwrap_or(0);
            let j = i + pick(sel, n - i);
            members.swap(i, j);
        }
        Layout { members, extras: &case.extras, ws: case.ws, fill: case.pad_fill }
    }

    fn render(&self, ty: &str, challenge: &str, pad: Option<usize>) -> Built {
        let (open, colon, comma, close): (&str, &str, &str, &str) = match self.ws {
            0 => ("{", ":", ",", "}"),
            1 => ("{", ": ", ", ", "}"),
            2 => ("{\n    ", ": ", ",\n    ", "\n}"),
            _ => ("{ ", " : ", " , ", " }\r\n"),
        };
        let mut b = Built::default();
        let out = &mut b.bytes;
        out.extend_from_slice(open.as_bytes());
        let mut first = true;
        for m in &self.members {
            if matches!(m, Member::Pad) && pad.is_none() {
                continue;
            }
            if !first {
                out.extend_from_slice(comma.as_bytes());
            }
            first = false;
            let key = |out: &mut Vec<u8>, k: &str| {
                out.push(b'"');
                out.extend_from_slice(k.as_bytes());
                out.push(b'"');
                out.extend_from_slice(colon.as_bytes());
            };
            let strv = |out: &mut Vec<u8>, v: &str| -> (usize, usize) {
                out.push(b'"');
                let s = out.len();
                out.extend_from_slice(v.as_bytes());
                let e = out.len();
                out.push(b'"');
                (s, e)
            };
            match m {
                Member::Type => {
                    key(out, "type");
                    b.type_span = strv(out, ty);
                }
                Member::Challenge => {
                    key(out, "challenge");
                    b.chal_span = strv(out, challenge);
                }
                Member::Pad => {
                    key(out, PAD_NAME);
                    let n = pad.unwrap_or(0);
                    let filler: Vec<u8> = (0..n).map(|i| b'a' + ((self.fill as usize + i) % 26) as u8).collect();
                    out.push(b'"');
                    out.extend_from_slice(&filler);
                    out.push(b'"');
                }
                Member::Extra(i) => {
                    let x = &self.extras[*i];
                    key(out, extra_name(x));
                    match x {
                        Extra::Origin(s) | Extra::Str(_, s) => {
                            strv(out, s);
                        }
                        Extra::CrossOrigin(v) | Extra::Bool(_, v) => out.extend_from_slice(if *v { b"true" } else { b"false" }),
                    }
                }
            }
        }
        out.extend_from_slice(close.as_bytes());
        b
    }

    /// client data with the given type and challenge; `target = Some(n)` pads to exactly n bytes
    /// (None when n is smaller than the unpadded text with an empty pad member).
    fn build(&self, ty: &str, challenge: &str, target: Option<usize>) -> Option<Built> {
        match target {
            None => Some(self.render(ty, challenge, None)),
            Some(t) => {
                let base = self.render(ty, challenge, Some(0)).bytes.len();
                if t < base {
                    return None;
                }
                let b = self.render(ty, challenge, Some(t - base));
                debug_assert_eq!(b.bytes.len(), t);
                Some(b)
            }
        }
    }
}

fn extra_name(x: &Extra) -> &'static str {
    match x {
        Extra::Origin(_) => "origin",
        Extra::CrossOrigin(_) => "crossOrigin",
        Extra::Str(n, _) | Extra::Bool(n, _) => UNKNOWN_NAMES[*n as usize % UNKNOWN_NAMES.len()],
    }
}

// ------------------------------------------------------------------ independent signer

struct P256Signer {
    sk: p256::ecdsa::SigningKey,
    pk: [u8; 65],
}

impl P256Signer {
    /// all key material is derived from generated bytes; an out-of-range scalar (0 or ≥ n, e.g. after
    /// shrinking to all-zero) is re-derived by hashing
    fn from_seed(seed: &[u8]) -> P256Signer {
        let mut cand = [0u8; 32];
        for (i, b) in seed.iter().take(32).enumerate() {
            cand[i] = *b;
        }
        let mut ctr = 0u8;
        let sk = loop {
            if let Ok(k) = p256::ecdsa::SigningKey::from_slice(&cand) {
                break k;
            }
            let mut h = Sha256::new();
            h.update(seed);
            h.update([ctr]);
            cand = h.finalize().into();
            ctr = ctr.wrapping_add(1);
        };
        let ep = sk.verifying_key().to_encoded_point(false);
        let mut pk = [0u8; 65];
        pk.copy_from_slice(ep.as_bytes());
        P256Signer { sk, pk }
    }
    /// ES256 (ECDSA P-256 with SHA-256, RFC 6979 deterministic) over `msg`; returns (low-S, high-S) encodings
    fn sign(&self, msg: &[u8]) -> ([u8; 64], [u8; 64]) {
        let sig: p256::ecdsa::Signature = self.sk.sign(msg);
        let low = sig.normalize_s().unwrap_or(sig);
        let (r, s) = low.split_scalars();
        let neg_s = -*s;
        let high = p256::ecdsa::Signature::from_scalars(r.to_bytes(), neg_s.to_bytes()).expect("non-zero scalars");
        let mut a = [0u8; 64];
        a.copy_from_slice(&low.to_bytes());
        let mut b = [0u8; 64];
        b.copy_from_slice(&high.to_bytes());
        (a, b)
    }
    /// the message a WebAuthn authenticator signs: authenticatorData ‖ SHA-256(clientDataJSON)
    fn assertion(&self, auth: &[u8], cd: &[u8]) -> [u8; 64] {
        let mut m = auth.to_vec();
        m.extend_from_slice(&sha256(cd));
        self.sign(&m).0
    }
}

// ------------------------------------------------------------------ probe

struct Wa<'a> {
    e: Env,
    lib: Address,
    ex: Address,
    ctx: &'a mut Ctx,
}

#[derive(Clone)]
struct Assertion {
    payload: Vec<u8>,
    key: [u8; 65],
    sig: [u8; 64],
    auth: Vec<u8>,
    cd: Vec<u8>,
}

impl<'a> Wa<'a> {
    fn lib_accepts(&mut self, a: &Assertion) -> (bool, String) {
        let e = &self.e;
        let sd = WebAuthnSigData {
            signature: BytesN::from_array(e, &a.sig),
            authenticator_data: Bytes::from_slice(e, &a.auth),
            client_data: Bytes::from_slice(e, &a.cd),
        };
        let r = envx::call_t::<bool>(e, &self.lib, "webauthn_verify", args![e; Bytes::from_slice(e, &a.payload), BytesN::from_array(e, &a.key), sd]);
        self.ctx.op(r.is_ok());
        match r {
            Ok(true) => (true, "true".into()),
            Ok(false) => (false, "false".into()),
            Err(s) => (false, s),
        }
    }
    fn ex_accepts_raw(&mut self, payload: &[u8], key_data: &[u8], sig_data: &Bytes) -> (bool, String) {
        let e = &self.e;
        let r = envx::call_t::<bool>(e, &self.ex, "verify", args![e; Bytes::from_slice(e, payload), Bytes::from_slice(e, key_data), sig_data.clone()]);
        self.ctx.op(r.is_ok());
        match r {
            Ok(true) => (true, "true".into()),
            Ok(false) => (false, "false".into()),
            Err(s) => (false, s),
        }
    }
    fn xdr(&self, a: &Assertion) -> Bytes {
        let e = &self.e;
        WebAuthnSigData {
            signature: BytesN::from_array(e, &a.sig),
            authenticator_data: Bytes::from_slice(e, &a.auth),
            client_data: Bytes::from_slice(e, &a.cd),
        }
        .to_xdr(e)
    }
    fn ex_accepts(&mut self, a: &Assertion, cred: &[u8]) -> (bool, String) {
        let mut kd = a.key.to_vec();
        kd.extend_from_slice(cred);
        let sd = self.xdr(a);
        self.ex_accepts_raw(&a.payload, &kd, &sd)
    }

    /// submit to both targets and compare with the expectation
    fn expect(&mut self, a: &Assertion, cred: &[u8], want: bool, family: &str, label: &str) -> R {
        let (la, lmsg) = self.lib_accepts(a);
        let (xa, xmsg) = self.ex_accepts(a, cred);
        let describe = |a: &Assertion| {
            format!(
                "payload={} key={} sig={} auth={} client_data={:?}",
                hex::encode(&a.payload),
                hex::encode(a.key),
                hex::encode(a.sig),
                hex::encode(&a.auth),
                String::from_utf8_lossy(&a.cd)
            )
        };
        if want {
            ensure!(la, format!("C18/webauthn.verify/genuine-rejected/{family}"), "{label}: genuine well-formed assertion refused by the library ({lmsg}); {}", describe(a));
            ensure!(xa, format!("C18/webauthn-verifier.verify/genuine-rejected/{family}"), "{label}: genuine well-formed assertion refused by the example contract ({xmsg}); {}", describe(a));
            self.ctx.class("wa_accepted");
            self.ctx.class(&format!("wa_accepted:{family}"));
        } else {
            ensure!(!la, format!("C18/webauthn.verify/accepted-bad-{family}"), "{label}: must be refused but the library returned true; {}", describe(a));
            ensure!(!xa, format!("C18/webauthn-verifier.verify/accepted-bad-{family}"), "{label}: must be refused but the example contract returned true; {}", describe(a));
            self.ctx.class("wa_rejected");
            self.ctx.class(&format!("wa_rejected:{family}"));
        }
        Ok(())
    }
}

fn auth_data(case: &WaCase, flags: u8) -> Vec<u8> {
    let mut v = Vec::with_capacity(37 + case.ext.len());
    let mut rp = case.rp_hash.clone();
    rp.resize(32, 0);
    v.extend_from_slice(&rp);
    v.push(flags);
    v.extend_from_slice(&case.counter.to_be_bytes());
    v.extend_from_slice(&case.ext);
    v
}

fn flags_ok(f: u8) -> bool {
    let (up, uv, be, bs) = (f & UP != 0, f & UV != 0, f & BE != 0, f & BS != 0);
    up && uv && !(!be && bs)
}

pub fn run_wa(case: &WaCase, ctx: &mut Ctx) -> R {
    let e = envx::new_env(100, envx::BIG_TTL);
    let lib = e.register(VerifierLib, ());
    let ex = e.register(WebauthnVerifierContract, ());
    let mut w = Wa { e, lib, ex, ctx };

    let mut payload = case.payload.clone();
    payload.resize(32, 0);
    let mut other = case.other_payload.clone();
    other.resize(32, 0);
    if other == payload {
        other[31] ^= 1;
    }
    let signer = P256Signer::from_seed(&case.key_seed);
    let layout = Layout::new(case);
    let cred = &case.cred_id[..];

    let gflags = case.flags_rest | UP | UV | [0, BE, BE | BS][case.backup as usize % 3];
    let gauth = auth_data(case, gflags);
    let challenge = String::from_utf8(crate_b64url(&payload)).expect("ascii");
    ensure!(challenge.as_bytes() == ref_b64url(&payload).as_slice(), "C18/harness/reference-encoders-disagree", "base64 crate vs own encoder on {}", hex::encode(&payload));
    let target = match case.len {
        LenSel::Natural => None,
        LenSel::Pad(n) => Some((n as usize).min(CD_MAX)),
    };
    // variants keep the length class of the genuine assertion, so that only the stated condition decides
    let build = |ty: &str, ch: &str, t: Option<usize>| -> Built {
        match layout.build(ty, ch, t) {
            Some(b) => b,
            None => layout.render(ty, ch, None),
        }
    };
    let mk = |auth: &[u8], cd: &[u8]| -> Assertion { Assertion { payload: payload.clone(), key: signer.pk, sig: signer.assertion(auth, cd), auth: auth.to_vec(), cd: cd.to_vec() } };

    // ---- the genuine assertion
    let gbuilt = build("webauthn.get", &challenge, target);
    let gcd = gbuilt.bytes.clone();
    if gcd.len() > CD_MAX {
        // cannot happen with the generator's bounds (natural text ≤ ~600 bytes); keep the run honest
        bail!("C18/harness/genuine-out-of-domain", "generated client data of {} bytes", gcd.len());
    }
    let genuine = mk(&gauth, &gcd);
    w.expect(&genuine, cred, true, "genuine", "genuine assertion")?;
    w.ctx.class(match gcd.len() {
        1024 => "wa_len_1024",
        1023 => "wa_len_1023",
        1000..=1022 => "wa_len_1000_1022",
        300..=999 => "wa_len_300_999",
        _ => "wa_len_natural",
    });
    w.ctx.class(&format!("wa_ws_{}", case.ws));
    w.ctx.class_n("wa_extra_members", (layout.members.len() - 3) as u64);
    // credential id suffix of key_data is documented as client-side only: still genuine
    if !cred.is_empty() {
        let mut c2 = cred.to_vec();
        c2[0] ^= 0x80;
        let (xa, xmsg) = w.ex_accepts(&genuine, &c2);
        ensure!(xa, "C18/webauthn-verifier.verify/genuine-rejected/credential-id", "same key with another credential id suffix refused ({xmsg})");
        w.ctx.class("wa_cred_id_changed");
    }
    // the same key_data without the 65-byte prefix being complete must be refused
    {
        let sd = w.xdr(&genuine);
        let cut = pick(case.short_payload, 65);
        let (xa, _) = w.ex_accepts_raw(&payload, &signer.pk[..cut], &sd);
        ensure!(!xa, "C18/webauthn-verifier.verify/accepted-bad-key/short-key-data", "key_data of {cut} bytes accepted");
        w.ctx.class("wa_rejected:short_key_data");
    }

    // ---- (a) re-signed semantic variants
    // flags: all 16 combinations of UP/UV/BE/BS
    for m in 0u8..16 {
        let f = case.flags_rest | if m & 1 != 0 { UP } else { 0 } | if m & 2 != 0 { UV } else { 0 } | if m & 4 != 0 { BE } else { 0 } | if m & 8 != 0 { BS } else { 0 };
        let auth = auth_data(case, f);
        let a = mk(&auth, &gcd);
        w.expect(&a, cred, flags_ok(f), "flags", &format!("flags {f:#04x} (UP={} UV={} BE={} BS={})", m & 1, (m >> 1) & 1, (m >> 2) & 1, (m >> 3) & 1))?;
    }
    // type
    for ty in ["webauthn.get", "webauthn.create", "", "webauthn.get ", " webauthn.get", "webauthn.ge", "Webauthn.get", "webauthn.get\u{0}"] {
        let cd = build(ty, &challenge, target).bytes;
        if cd.len() > CD_MAX {
            continue;
        }
        let a = mk(&gauth, &cd);
        w.expect(&a, cred, ty == "webauthn.get", "type", &format!("type {ty:?}"))?;
    }
    // challenge
    {
        let std = crate_b64std(&payload);
        let tr = 1 + pick(case.trunc, 42); // keep 1..=42 of the 43 characters
        let mut chals: Vec<(String, bool, &str)> = vec![
            (challenge.clone(), true, "correct"),
            (format!("{challenge}="), false, "padded"),
            (format!("{challenge}A"), false, "extended"),
            (String::from_utf8(crate_b64url(&other)).expect("ascii"), false, "other-payload"),
            (challenge[..tr].to_string(), false, "truncated"),
            (challenge[..42].to_string(), false, "truncated-by-one"),
            (String::new(), false, "empty"),
            (hex::encode(&payload), false, "hex"),
        ];
        if std != challenge {
            chals.push((std, false, "standard-alphabet"));
            w.ctx.class("wa_std_alphabet_differs");
        }
        for (ch, ok, name) in chals {
            let cd = build("webauthn.get", &ch, target).bytes;
            if cd.len() > CD_MAX {
                continue;
            }
            let a = mk(&gauth, &cd);
            w.expect(&a, cred, ok, "challenge", &format!("challenge {name} {ch:?}"))?;
        }
    }
    // authenticator data shorter than 37 bytes (flags byte, when present, is a passing one)
    {
        let full = auth_data(case, gflags);
        let mut lens = vec![36usize, 33];
        for s in &case.short_auth {
            lens.push(pick(*s, 37));
        }
        lens.dedup();
        for l in lens {
            let auth = &full[..l.min(full.len())];
            let a = mk(auth, &gcd);
            w.expect(&a, cred, auth.len() >= AUTH_MIN, "auth-len", &format!("authenticator data of {} bytes", auth.len()))?;
        }
        // exactly 37 bytes is well-formed
        let a = mk(&full[..37], &gcd);
        w.expect(&a, cred, true, "auth-len", "authenticator data of 37 bytes")?;
    }
    // client data length around the bound
    {
        let over = [1026usize, 1027, 1100, 1500, 2048, 4096][pick(case.over, 6)];
        for t in [1022usize, 1023, 1024, 1025, over] {
            if let Some(b) = layout.build("webauthn.get", &challenge, Some(t)) {
                let a = mk(&gauth, &b.bytes);
                w.expect(&a, cred, t <= CD_MAX, "cd-len", &format!("client data of {t} bytes"))?;
                if t == CD_MAX {
                    w.ctx.class("wa_bound_exact_accepted");
                }
            }
        }
    }
    // correctly keyed signatures over a message other than authData ‖ SHA-256(clientData)
    {
        let h = sha256(&gcd);
        let mut swapped = h.to_vec();
        swapped.extend_from_slice(&gauth);
        let mut unhashed = gauth.clone();
        unhashed.extend_from_slice(&gcd);
        let mut other_auth = gauth.clone();
        other_auth[0] ^= 1;
        other_auth.extend_from_slice(&h);
        let msgs: Vec<(&str, Vec<u8>)> = vec![
            ("client-data-hash-only", h.to_vec()),
            ("client-data-only", gcd.clone()),
            ("authenticator-data-only", gauth.clone()),
            ("hash-then-auth", swapped),
            ("auth-then-raw-client-data", unhashed),
            ("other-authenticator-data", other_auth),
            ("payload", payload.clone()),
        ];
        for (name, m) in msgs {
            let mut a = genuine.clone();
            a.sig = signer.sign(&m).0;
            if a.sig == genuine.sig {
                continue;
            }
            w.expect(&a, cred, false, "signed-message", &format!("signature over {name}"))?;
        }
        // another key pair signing the right message
        let mut seed2 = case.key_seed.clone();
        seed2.push(1);
        let s2 = P256Signer::from_seed(&sha256(&seed2));
        if s2.pk != signer.pk {
            let mut a = genuine.clone();
            a.sig = s2.assertion(&gauth, &gcd);
            w.expect(&a, cred, false, "key", "signed by another key")?;
            let mut b = genuine.clone();
            b.key = s2.pk;
            w.expect(&b, cred, false, "key", "verified under another key")?;
        }
        // the malleable twin (high-S) is outside the stated domain: recorded, never asserted
        let mut m = gauth.clone();
        m.extend_from_slice(&h);
        let mut a = genuine.clone();
        a.sig = signer.sign(&m).1;
        let (la, _) = w.lib_accepts(&a);
        w.ctx.class(if la { "wa_high_s_accepted" } else { "wa_high_s_rejected" });
    }
    // payload shorter than 32 bytes
    {
        let l = pick(case.short_payload, 32);
        for (name, ch) in [("challenge-of-short", String::from_utf8(crate_b64url(&payload[..l])).expect("ascii")), ("challenge-of-full", challenge.clone())] {
            let cd = build("webauthn.get", &ch, target).bytes;
            if cd.len() > CD_MAX {
                continue;
            }
            let mut a = mk(&gauth, &cd);
            a.payload = payload[..l].to_vec();
            w.expect(&a, cred, false, "short-payload", &format!("payload of {l} bytes, {name}"))?;
        }
    }

    // ---- (b) unsigned corruptions: one flipped bit, signature untouched
    for fl in &case.flips {
        let mut a = genuine.clone();
        let mask = 1u8 << (fl.bit % 8);
        let (name, at) = match fl.part {
            Part::Payload => {
                let i = pick(fl.pos, 32);
                a.payload[i] ^= mask;
                ("payload", i)
            }
            Part::Key => {
                let i = pick(fl.pos, 65);
                a.key[i] ^= mask;
                ("key", i)
            }
            Part::Sig => {
                let i = pick(fl.pos, 64);
                a.sig[i] ^= mask;
                ("signature", i)
            }
            Part::Auth => {
                let i = pick(fl.pos, a.auth.len());
                a.auth[i] ^= mask;
                ("authenticator-data", i)
            }
            Part::AuthFlags => {
                a.auth[32] ^= mask;
                ("flags", 32)
            }
            Part::ClientAny => {
                let i = pick(fl.pos, a.cd.len());
                a.cd[i] ^= mask;
                ("client-data", i)
            }
            Part::ClientType => {
                let (s, e) = gbuilt.type_span;
                let i = s + pick(fl.pos, e - s);
                a.cd[i] ^= mask;
                ("client-data-type", i)
            }
            Part::ClientChallenge => {
                let (s, e) = gbuilt.chal_span;
                let i = s + pick(fl.pos, e - s);
                a.cd[i] ^= mask;
                ("client-data-challenge", i)
            }
        };
        // every corruption really changes the submitted input
        if a.payload == genuine.payload && a.key == genuine.key && a.sig == genuine.sig && a.auth == genuine.auth && a.cd == genuine.cd {
            bail!("C18/harness/no-op-corruption", "flip {:?} changed nothing", fl);
        }
        w.expect(&a, cred, false, &format!("bitflip-{name}"), &format!("bit {} of byte {at} of {name} flipped, signature untouched", fl.bit % 8))?;
        w.ctx.class("wa_bitflip_rejected");
    }
    // a flipped bit of the XDR envelope handed to the example contract: recorded only
    {
        let sd = w.xdr(&genuine);
        let mut raw: Vec<u8> = sd.iter().collect();
        let i = pick(case.over, raw.len());
        raw[i] ^= 1 << (case.pad_fill % 8);
        let mut kd = genuine.key.to_vec();
        kd.extend_from_slice(cred);
        let b = Bytes::from_slice(&w.e, &raw);
        let (xa, _) = w.ex_accepts_raw(&payload, &kd, &b);
        w.ctx.class(if xa { "wa_xdr_flip_accepted" } else { "wa_xdr_flip_rejected" });
    }

    let c = &w.ctx;
    let fam_rej = ["flags", "type", "challenge", "auth-len", "cd-len"].iter().all(|f| c.seen(&format!("wa_rejected:{f}")) > 0);
    if c.seen("wa_accepted:genuine") > 0 && fam_rej && c.seen("wa_bitflip_rejected") > 0 {
        w.ctx.nontrivial = true;
        w.ctx.class("nontrivial");
        w.ctx.class("wa_nontrivial");
    }
    Ok(())
}

// ------------------------------------------------------------------ Ed25519

#[derive(Clone, Copy, Debug, Serialize, Deserialize)]
pub enum EdPart {
    Payload,
    Key,
    Sig,
}
#[derive(Clone, Copy, Debug, Serialize, Deserialize)]
pub struct EdFlip {
    pub part: EdPart,
    pub pos: u16,
    pub bit: u8,
}
#[derive(Clone, Debug, Serialize, Deserialize)]
pub struct EdCase {
    pub seed: Vec<u8>,
    pub other_seed: Vec<u8>,
    pub payload: Vec<u8>,
    pub other_payload: Vec<u8>,
    pub flips: Vec<EdFlip>,
}

fn ed_strategy(_tier: Tier) -> BoxedStrategy<EdCase> {
    let payload = prop_oneof![
        6 => bytes_n(32),
        2 => proptest::collection::vec(any::<u8>(), 0..=100),
        1 => proptest::collection::vec(any::<u8>(), 0..=2),
    ];
    fn f(part: EdPart) -> BoxedStrategy<EdFlip> {
        (any::<u16>(), 0u8..8).prop_map(move |(pos, bit)| EdFlip { part, pos, bit }).boxed()
    }
    let flips = (proptest::collection::vec(f(EdPart::Payload), 3), proptest::collection::vec(f(EdPart::Key), 3), proptest::collection::vec(f(EdPart::Sig), 4)).prop_map(|(a, b, c)| {
        let mut v = a;
        v.extend(b);
        v.extend(c);
        v
    });
    (bytes_n(32), bytes_n(32), payload, bytes_n(32), flips).prop_map(|(seed, other_seed, payload, other_payload, flips)| EdCase { seed, other_seed, payload, other_payload, flips }).boxed()
}

struct Ed<'a> {
    e: Env,
    lib: Address,
    ex: Address,
    ctx: &'a mut Ctx,
}
impl<'a> Ed<'a> {
    fn submit(&mut self, payload: &[u8], key: &[u8; 32], sig: &[u8; 64]) -> ((bool, String), (bool, String)) {
        let e = &self.e;
        let mut out = vec![];
        for (c, f) in [(&self.lib, "ed25519_verify"), (&self.ex, "verify")] {
            let r = envx::call_t::<bool>(e, c, f, args![e; Bytes::from_slice(e, payload), BytesN::from_array(e, key), BytesN::from_array(e, sig)]);
            self.ctx.ops += 1;
            if r.is_ok() {
                self.ctx.ops_ok += 1;
            }
            out.push(match r {
                Ok(true) => (true, "true".to_string()),
                Ok(false) => (false, "false".to_string()),
                Err(s) => (false, s),
            });
        }
        let x = out.pop().unwrap();
        let l = out.pop().unwrap();
        (l, x)
    }
    fn expect(&mut self, payload: &[u8], key: &[u8; 32], sig: &[u8; 64], want: bool, family: &str, label: &str) -> R {
        let ((la, lm), (xa, xm)) = self.submit(payload, key, sig);
        let d = format!("payload={} key={} sig={}", hex::encode(payload), hex::encode(key), hex::encode(sig));
        if want {
            ensure!(la, format!("C18/ed25519.verify/genuine-rejected/{family}"), "{label}: valid signature refused by the library ({lm}); {d}");
            ensure!(xa, format!("C18/ed25519-verifier.verify/genuine-rejected/{family}"), "{label}: valid signature refused by the example contract ({xm}); {d}");
            self.ctx.class("ed_accepted");
        } else {
            ensure!(!la, format!("C18/ed25519.verify/accepted-bad-{family}"), "{label}: must be refused but the library returned true; {d}");
            ensure!(!xa, format!("C18/ed25519-verifier.verify/accepted-bad-{family}"), "{label}: must be refused but the example contract returned true; {d}");
            self.ctx.class("ed_rejected");
            self.ctx.class(&format!("ed_rejected:{family}"));
        }
        Ok(())
    }
}

fn ed_key(seed: &[u8]) -> ed25519_dalek::SigningKey {
    let mut s = [0u8; 32];
    for (i, b) in seed.iter().take(32).enumerate() {
        s[i] = *b;
    }
    ed25519_dalek::SigningKey::from_bytes(&s)
}

pub fn run_ed(case: &EdCase, ctx: &mut Ctx) -> R {
    use ed25519_dalek::Signer as _;
    let e = envx::new_env(100, envx::BIG_TTL);
    let lib = e.register(VerifierLib, ());
    let ex = e.register(Ed25519VerifierContract, ());
    let mut w = Ed { e, lib, ex, ctx };
    let sk = ed_key(&case.seed);
    let pk: [u8; 32] = sk.verifying_key().to_bytes();
    let payload = &case.payload[..];
    let sig: [u8; 64] = sk.sign(payload).to_bytes();
    w.expect(payload, &pk, &sig, true, "genuine", "genuine signature")?;
    w.ctx.class(match payload.len() {
        32 => "ed_payload_32",
        0 => "ed_payload_empty",
        _ => "ed_payload_other_len",
    });

    // other key pair
    let sk2 = ed_key(&case.other_seed);
    let pk2: [u8; 32] = sk2.verifying_key().to_bytes();
    if pk2 != pk {
        let sig2: [u8; 64] = sk2.sign(payload).to_bytes();
        w.expect(payload, &pk, &sig2, false, "key", "signed by another key")?;
        w.expect(payload, &pk2, &sig, false, "key", "verified under another key")?;
        w.expect(payload, &pk2, &sig2, true, "genuine", "second key pair")?;
    }
    // another payload
    let mut other = case.other_payload.clone();
    if other == payload {
        other.push(0);
    }
    let sig_o: [u8; 64] = sk.sign(&other).to_bytes();
    w.expect(payload, &pk, &sig_o, false, "payload", "signature of another payload")?;
    w.expect(&other, &pk, &sig, false, "payload", "another payload under the genuine signature")?;
    // length changes
    let mut longer = payload.to_vec();
    longer.push(0);
    w.expect(&longer, &pk, &sig, false, "payload", "payload extended by a zero byte")?;
    if !payload.is_empty() {
        w.expect(&payload[..payload.len() - 1], &pk, &sig, false, "payload", "payload truncated by one byte")?;
    }
    // single-bit corruptions
    let mut flipped = 0;
    for fl in &case.flips {
        let mask = 1u8 << (fl.bit % 8);
        let (mut p, mut k, mut s) = (payload.to_vec(), pk, sig);
        let name = match fl.part {
            EdPart::Payload => {
                if p.is_empty() {
                    continue;
                }
                let i = pick(fl.pos, p.len());
                p[i] ^= mask;
                "payload"
            }
            EdPart::Key => {
                k[pick(fl.pos, 32)] ^= mask;
                "key"
            }
            EdPart::Sig => {
                s[pick(fl.pos, 64)] ^= mask;
                "signature"
            }
        };
        w.expect(&p, &k, &s, false, &format!("bitflip-{name}"), &format!("one bit of {name} flipped ({:?})", fl))?;
        flipped += 1;
    }
    if flipped > 0 {
        w.ctx.nontrivial = true;
        w.ctx.class("nontrivial");
        w.ctx.class("ed_nontrivial");
    }
    Ok(())
}

// ------------------------------------------------------------------ encoder differential

/// 48 bytes whose encoding is the 64-character alphabet in order
fn alphabet_bytes() -> Vec<u8> {
    let mut v = vec![];
    let mut i = 0u32;
    while i < 64 {
        let val = (i << 18) | ((i + 1) << 12) | ((i + 2) << 6) | (i + 3);
        v.extend_from_slice(&[(val >> 16) as u8, (val >> 8) as u8, val as u8]);
        i += 4;
    }
    v
}

fn check_encode(e: &Env, lib: &Address, src: &[u8], ctx: &mut Ctx, what: &str) -> R {
    let want = ref_b64url(src);
    let want2 = crate_b64url(src);
    ensure!(want == want2, "C18/harness/reference-encoders-disagree", "own encoder and base64 crate disagree on {}", hex::encode(src));
    let r = envx::call_t::<Bytes>(e, lib, "b64", args![e; Bytes::from_slice(e, src)]);
    ctx.op(r.is_ok());
    let got: Vec<u8> = match r {
        Ok(b) => b.iter().collect(),
        Err(s) => bail!(format!("C18/base64_url_encode/failed/len-mod3-{}", src.len() % 3), "{what}: encoding {} bytes failed: {s}; input {}", src.len(), hex::encode(src)),
    };
    ensure!(got.len() == B64_DST, "C18/harness/b64-wrapper", "wrapper returned {} bytes", got.len());
    let n = want.len();
    ensure!(
        got[..n] == want[..],
        format!("C18/base64_url_encode/differs-from-rfc4648/len-mod3-{}", src.len() % 3),
        "{what}: input {} ({} bytes): got {:?}, RFC 4648 §5 gives {:?}",
        hex::encode(src),
        src.len(),
        String::from_utf8_lossy(&got[..n]),
        String::from_utf8_lossy(&want)
    );
    ensure!(
        got[n..].iter().all(|b| *b == B64_SENTINEL),
        format!("C18/base64_url_encode/writes-beyond-output/len-mod3-{}", src.len() % 3),
        "{what}: input of {} bytes: bytes after the {n} encoded characters were written",
        src.len()
    );
    if src.len() == 32 {
        let mut a = [0u8; 32];
        a.copy_from_slice(src);
        let r = envx::call_t::<Bytes>(e, lib, "b64_32", args![e; BytesN::from_array(e, &a)]);
        ctx.op(r.is_ok());
        match r {
            Ok(b) => {
                let g: Vec<u8> = b.iter().collect();
                ensure!(g == want, "C18/base64_url_encode/differs-from-rfc4648/exact-43", "{what}: 32→43: got {:?}, want {:?}", String::from_utf8_lossy(&g), String::from_utf8_lossy(&want));
            }
            Err(s) => bail!("C18/base64_url_encode/failed/exact-43", "{what}: 32-byte input into a 43-byte destination failed: {s}"),
        }
        ctx.class("b64_exact_43");
    }
    ctx.class(&format!("b64_len_mod3_{}", src.len() % 3));
    if want.contains(&b'-') || want.contains(&b'_') {
        ctx.class("b64_urlsafe_chars");
    }
    Ok(())
}

fn b64_slabs(tier: Tier) -> u64 {
    tier.pick(65, 301)
}

/// slab = input length; deterministic contents: constant fills, alphabet-covering rotations,
/// counting pattern and splitmix-derived pseudo-random bytes (a pure function of the length)
fn run_b64_lattice(_tier: Tier, slab: u64, ctx: &mut Ctx, out: &mut FixedOut) -> R {
    let len = slab as usize;
    let e = envx::new_env(100, envx::BIG_TTL);
    let lib = e.register(VerifierLib, ());
    let mut inputs: Vec<(String, Vec<u8>)> = vec![];
    for fill in [0x00u8, 0xff, 0xfb, 0xfe, 0x3e, 0x3f, 0xf8] {
        inputs.push((format!("all-{fill:#04x}"), vec![fill; len]));
    }
    let ab = alphabet_bytes();
    for rot in 0..16 {
        inputs.push((format!("alphabet-rot{rot}"), (0..len).map(|i| ab[(rot * 3 + i) % 48]).collect()));
    }
    for off in [0usize, 1, 2] {
        // misaligned walks through the alphabet-covering bytes
        inputs.push((format!("alphabet-misaligned{off}"), (0..len).map(|i| ab[(off + i * 7) % 48]).collect()));
    }
    inputs.push(("counting".into(), (0..len).map(|i| i as u8).collect()));
    inputs.push(("counting-down".into(), (0..len).map(|i| 255 - i as u8).collect()));
    for k in 0..8u64 {
        let mut s = 0xC18u64 ^ (slab << 20) ^ (k << 8);
        inputs.push((format!("splitmix{k}"), (0..len).map(|_| splitmix64(&mut s) as u8).collect()));
    }
    if len == 0 {
        inputs.truncate(1);
    }
    for (name, src) in &inputs {
        out.evaluations += 1;
        if let Err(v) = check_encode(&e, &lib, src, ctx, name) {
            out.failing = Some(json!({"kind": name, "input_hex": hex::encode(src)}));
            return Err(v);
        }
        if len > 0 {
            out.nontrivial.push(hash_str(&hex::encode(src)));
            ctx.class("nontrivial");
            ctx.class("b64_nontrivial");
            if out.samples.is_empty() && len == 32 {
                out.samples.push(json!({"kind": name, "input_hex": hex::encode(src)}));
            }
        }
    }
    Ok(())
}

#[derive(Clone, Debug, Serialize, Deserialize)]
pub struct B64Case {
    pub items: Vec<Vec<u8>>,
}

fn b64_strategy(tier: Tier) -> BoxedStrategy<B64Case> {
    let max = tier.pick(64usize, 300usize);
    let byte = prop_oneof![6 => any::<u8>(), 1 => prop_oneof![Just(0xffu8), Just(0xfbu8), Just(0xfeu8), Just(0x00u8), Just(0x3eu8), Just(0x3fu8)]];
    let item = (0..=max).prop_flat_map(move |n| proptest::collection::vec(byte.clone(), n..=n));
    proptest::collection::vec(item, 1..=8).prop_map(|items| B64Case { items }).boxed()
}

pub fn run_b64(case: &B64Case, ctx: &mut Ctx) -> R {
    let e = envx::new_env(100, envx::BIG_TTL);
    let lib = e.register(VerifierLib, ());
    let mut any_nonempty = false;
    for it in &case.items {
        check_encode(&e, &lib, it, ctx, "random")?;
        any_nonempty |= !it.is_empty();
    }
    if any_nonempty {
        ctx.nontrivial = true;
        ctx.class("nontrivial");
        ctx.class("b64_nontrivial");
    }
    Ok(())
}

// ------------------------------------------------------------------ extract_from_bytes

#[derive(Clone, Copy, Debug, Serialize, Deserialize)]
pub enum Pos {
    Abs(u32),
    /// data.len() + δ
    Len(i8),
    /// start + N + δ (end bound only; for the start bound: N + δ)
    Fit(i8),
    Huge(u32),
}

#[derive(Clone, Debug, Serialize, Deserialize)]
pub struct ExCase {
    pub data: Vec<u8>,
    pub n_sel: u16,
    /// 0 `a..b`, 1 `a..=b`, 2 `a..`, 3 `..b`, 4 `..=b`, 5 `..`
    pub kind: u8,
    pub a: Pos,
    pub b: Pos,
    /// when set, the data length is adjusted so that an open-ended range can fit exactly
    pub fit_len: Option<i8>,
}

const EX_N: [usize; 6] = [1, 2, 4, 32, 64, 65];

fn ex_strategy(_tier: Tier) -> BoxedStrategy<ExCase> {
    let pos = || {
        prop_oneof![
            3 => (0u32..40).prop_map(Pos::Abs),
            1 => (0u32..140).prop_map(Pos::Abs),
            3 => (-3i8..=3).prop_map(Pos::Len),
            4 => Just(Pos::Fit(0)),
            4 => (-2i8..=2).prop_map(Pos::Fit),
            1 => prop_oneof![Just(u32::MAX), Just(u32::MAX - 1), Just(1u32 << 31), any::<u32>()].prop_map(Pos::Huge),
        ]
    };
    (proptest::collection::vec(any::<u8>(), 0..=140), any::<u16>(), 0u8..6, pos(), pos(), proptest::option::weighted(0.6, prop_oneof![2 => Just(0i8), 1 => 0i8..=40, 1 => -2i8..=2]))
        .prop_map(|(data, n_sel, kind, a, b, fit_len)| ExCase { data, n_sel, kind, a, b, fit_len })
        .boxed()
}

pub fn run_extract(case: &ExCase, ctx: &mut Ctx) -> R {
    let e = envx::new_env(100, envx::BIG_TTL);
    let lib = e.register(VerifierLib, ());
    let n = EX_N[pick(case.n_sel, EX_N.len())];
    let mut data = case.data.clone();
    let clampi = |x: i64| -> u32 { x.clamp(0, u32::MAX as i64) as u32 };
    // resolve the start bound first (Fit for a start bound means "N + δ")
    let a_of = |len: usize| -> u32 {
        match case.a {
            Pos::Abs(x) => x,
            Pos::Len(d) => clampi(len as i64 + d as i64),
            Pos::Fit(d) => clampi(n as i64 + d as i64),
            Pos::Huge(x) => x,
        }
    };
    if let Some(d) = case.fit_len {
        // make `a..` / `..` / `..=b` able to fit: len = start + N + δ
        let start = if matches!(case.kind, 0 | 1 | 2) { a_of(data.len()).min(100) as i64 } else { 0 };
        let want = (start + n as i64 + d as i64).clamp(0, 200) as usize;
        data.resize(want, 0x5a);
        for (i, b) in data.iter_mut().enumerate() {
            if *b == 0x5a {
                *b = (i as u8).wrapping_mul(37).wrapping_add(11);
            }
        }
    }
    let len = data.len();
    let a = if matches!(case.kind, 0 | 1 | 2) { a_of(len) } else { 0 };
    let b = match case.b {
        Pos::Abs(x) => x,
        Pos::Len(d) => clampi(len as i64 + d as i64 - if matches!(case.kind, 1 | 4) { 1 } else { 0 }),
        Pos::Fit(d) => clampi(a as i64 + n as i64 + d as i64 - if matches!(case.kind, 1 | 4) { 1 } else { 0 }),
        Pos::Huge(x) => x,
    };
    // reference: slice semantics
    let (au, bu) = (a as usize, b as usize);
    let sl: Option<&[u8]> = match case.kind {
        0 => data.get(au..bu),
        1 => {
            if b == u32::MAX {
                None
            } else {
                data.get(au..bu + 1)
            }
        }
        2 => data.get(au..),
        3 => data.get(..bu),
        4 => {
            if b == u32::MAX {
                None
            } else {
                data.get(..bu + 1)
            }
        }
        _ => Some(&data[..]),
    };
    let want: Option<Vec<u8>> = sl.filter(|s| s.len() == n).map(|s| s.to_vec());
    let r = envx::call_t::<Option<Bytes>>(&e, &lib, "extract", args![&e; Bytes::from_slice(&e, &data), n as u32, case.kind as u32, a, b]);
    ctx.op(r.is_ok());
    let d = format!("N={n} kind={} a={a} b={b} len={len}", case.kind);
    match (&want, &r) {
        (Some(w), Ok(Some(g))) => {
            let g: Vec<u8> = g.iter().collect();
            ensure!(&g == w, "C18/extract_from_bytes/wrong-bytes", "{d}: got {} want {}", hex::encode(&g), hex::encode(w));
            ctx.class("ex_some");
            ctx.class(&format!("ex_some_kind{}", case.kind));
            ctx.nontrivial = true;
        }
        (Some(w), Ok(None)) => bail!("C18/extract_from_bytes/none-for-in-bounds", "{d}: an in-bounds range of exactly N bytes returned None (want {})", hex::encode(w)),
        (Some(_), Err(s)) => bail!("C18/extract_from_bytes/failed-for-in-bounds", "{d}: an in-bounds range of exactly N bytes failed: {s}"),
        (None, Ok(Some(g))) => {
            let g: Vec<u8> = g.iter().collect();
            bail!("C18/extract_from_bytes/some-for-bad-range", "{d}: out-of-bounds or wrong-size range returned {}", hex::encode(g))
        }
        (None, Ok(None)) => {
            let oob = match case.kind {
                0 | 3 => bu > len,
                1 | 4 => b == u32::MAX || bu + 1 > len,
                _ => false,
            };
            ctx.class(if oob { "ex_none_out_of_bounds" } else { "ex_none_wrong_size" });
            if oob {
                ctx.nontrivial = true;
            }
        }
        (None, Err(s)) => {
            // documented: "None if range is out of bounds" — asserted for well-formed ranges (start ≤ end, no u32
            // overflow) whose end lies beyond the data; for inverted ranges, a start beyond the data or an
            // overflowing inclusive bound a failure is counted as a refusal
            let well_formed_oob = match case.kind {
                0 => a <= b && bu > len,
                1 => b != u32::MAX && a <= b + 1 && bu + 1 > len,
                3 => bu > len,
                4 => b != u32::MAX && bu + 1 > len,
                _ => false,
            };
            ensure!(!well_formed_oob, "C18/extract_from_bytes/failed-for-out-of-bounds", "{d}: documented to return None for an out-of-bounds range, but failed: {s}");
            ctx.class("ex_failed_instead_of_none");
        }
    }
    if ctx.nontrivial {
        ctx.class("nontrivial");
        ctx.class("ex_nontrivial");
    }
    Ok(())
}

// ------------------------------------------------------------------ property

pub fn property() -> Property {
    Property {
        id: "C18",
        rule: "webauthn: case = (32-byte payload, P-256 seed, rpIdHash, flags, counter, 0..60 extension bytes, flat client-data JSON with generated member order / whitespace / origin / crossOrigin / unknown string+boolean members, length class natural|300..1022|1023|1024, flip positions); \
               per case one genuine assertion is produced with p256+sha2 and ~50 re-signed variants (16 flag combinations, 8 types, 9 challenges, short authenticator data, client data 1022..1025 and beyond, wrong signed message, other key, short payload) and 13 unsigned single-bit corruptions, each through the library wrapper and the example verifier contract; \
               non-trivial = the genuine assertion was accepted, >=1 re-signed variant was rejected in each of the families flags/type/challenge/auth-len/cd-len and >=1 bit flip was rejected. \
               ed25519: genuine (seed, payload) accepted by library and example, other key / other payload / length change / 10 bit flips rejected; non-trivial = genuine accepted and >=1 flip rejected. \
               b64: every length 0..=64 (thorough 300) with constant, alphabet-covering, counting and pseudo-random contents plus proptest-random inputs, byte-for-byte against base64::URL_SAFE_NO_PAD and an own RFC 4648 §5 encoder, untouched destination tail; non-trivial = non-empty input. \
               extract: (bytes, N, range kind, state-relative bounds) against slice semantics; non-trivial = Some(..) or out-of-bounds None. distinct = distinct serialised case / input",
        subs: vec![
            // helpers first, so that an encoder / slicing defect is reported at its source
            Box::new(Fixed { name: "b64-lattice", slabs: b64_slabs, run: run_b64_lattice }),
            gen_sub::<B64Case>("b64-random", 800, 16_000, b64_strategy, run_b64),
            gen_sub::<ExCase>("extract", 4000, 80_000, ex_strategy, run_extract),
            gen_sub::<EdCase>("ed25519", 1200, 20_000, ed_strategy, run_ed),
            gen_sub::<WaCase>("webauthn", 1000, 12_000, wa_strategy, run_wa),
        ],
        floors: vec![
            ("wa_nontrivial", 100, 1200),
            ("wa_len_1024", 20, 290),
            ("wa_len_1023", 15, 190),
            ("wa_bound_exact_accepted", 100, 1200),
            ("wa_std_alphabet_differs", 70, 800),
            ("wa_bitflip_rejected", 1300, 15_000),
            ("wa_rejected:flags", 1300, 15_000),
            ("wa_accepted:flags", 300, 3600),
            ("ed_nontrivial", 120, 2000),
            ("b64_len_mod3_0", 190, 2700),
            ("b64_len_mod3_1", 190, 2700),
            ("b64_len_mod3_2", 190, 2700),
            ("b64_urlsafe_chars", 450, 7900),
            ("b64_exact_43", 5, 25),
            ("ex_some", 100, 2000),
            ("ex_none_out_of_bounds", 90, 2000),
        ],
        assumptions: vec![
            "Soroban native test host (sha256, secp256r1_verify, ed25519_verify, Bytes, XDR) is trusted",
            "RustCrypto p256 / sha2 / ed25519-dalek and the base64 crate are the independent references",
            "domain: 32-byte payloads (shorter must be refused, longer out of domain), flat client-data JSON without escapes or duplicate names, low-S signatures; client data of exactly 1024 bytes is within the documented bound",
        ],
    }
}

//! C03 — not implemented yet.
use crate::engine::*;

pub fn property() -> Property {
    Property { id: "C03", rule: "", subs: vec![], floors: vec![], assumptions: vec![] }
}

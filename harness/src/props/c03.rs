//! C03 — Smart-account authorization is sound and follows rule precedence.
//!
//! Target: the example `MultisigContract` (real `do_check_auth`).  Collaborators: harness
//! `MockVerifier`, the real `Ed25519VerifierContract` (ed25519-dalek keys) in a fifth of the
//! cases, 4 x `MockPolicy` with scripted answers, delegated signers as plain actors, 3 `Target`s.
//!
//! A case is a rule-set history (constructor rule + <= 12 admin operations, run under
//! `mock_all_auths` because only the account itself may call them) followed by 1..4 probes of
//! `__check_auth` with crafted `Signatures` and context batches (mocking switched off).  The
//! oracle is an executable transcription of the property statement (`oracle()`), asserted as an
//! equivalence; on success the enforce logs of the mock policies must be exactly the chosen
//! rules' policies, once per context.  Probes whose contexts are distinct contract calls are in
//! part repeated end-to-end (`Target::do_it` -> `account.require_auth()`).

use crate::contracts::c03::*;
use crate::engine::*;
use crate::envx::{self, Inv};
use crate::examples::ed25519_verifier::contract::Ed25519VerifierContract;
use crate::examples::multisig_account::contract::MultisigContract;
use crate::gen::pick;
use ed25519_dalek::{Signer as _, SigningKey};
use proptest::prelude::*;
use serde::{Deserialize, Serialize};
use sha2::{Digest, Sha256};
use soroban_sdk::auth::{Context, ContractContext, ContractExecutable, CreateContractHostFnContext, CreateContractWithConstructorHostFnContext};
use soroban_sdk::xdr::{
    self, HashIdPreimage, HashIdPreimageSorobanAuthorization, Limits, ScVal, SorobanAuthorizationEntry, SorobanCredentials, WriteXdr,
};
use soroban_sdk::xdr::ToXdr as _;
use soroban_sdk::{Address, Bytes, BytesN, Env, IntoVal, Map, String as SString, Symbol, TryFromVal, Val, Vec as SVec};
use stellar_accounts::smart_account::{ContextRule, ContextRuleType, Signatures, Signer};
use std::collections::{BTreeMap, BTreeSet};

// ------------------------------------------------------------------ case

/// pool: 0..6 external, 6..8 delegated; unknown (never in a rule): 8,9 external, 10 delegated
const POOL: usize = 8;
const NSIG: usize = 11;
const NPOL: usize = 4;

fn is_delegated(idx: usize) -> bool {
    idx == 6 || idx == 7 || idx == 10
}

#[derive(Clone, Copy, Debug, PartialEq, Eq, PartialOrd, Ord, Serialize, Deserialize)]
pub enum RuleTy {
    Default,
    /// CallContract(T0 | T1)
    Call(u8),
    /// CreateContract(W0)
    Create,
}

#[derive(Clone, Copy, Debug, Serialize, Deserialize)]
pub enum Valid {
    None,
    /// current ledger + d
    Rel(i8),
    /// ledger 0 (a sentinel-like value: it must be treated as the past ledger it is, not as "no expiration")
    Zero,
}

#[derive(Clone, Debug, Serialize, Deserialize)]
pub struct RuleSpec {
    pub ty: RuleTy,
    pub signers: Vec<u8>,
    pub policies: Vec<u8>,
    pub valid: Valid,
}

#[derive(Clone, Copy, Debug, Serialize, Deserialize)]
pub enum Adv {
    By(u8),
    /// jump to `valid_until + d` of the selected rule (if that is not in the past)
    ToExpiry(u16, i8),
}

#[derive(Clone, Debug, Serialize, Deserialize)]
pub enum Op {
    AddRule(RuleSpec),
    RemoveRule(u16),
    AddSigner(u16, u8),
    /// (rule, which of its signers; beyond the end = a pool signer that is not a member)
    RemoveSigner(u16, u16),
    AddPolicy(u16, u8),
    RemovePolicy(u16, u16),
    SetValid(u16, Valid),
    Rename(u16),
    Advance(Adv),
}

#[derive(Clone, Copy, Debug, PartialEq, Eq, Serialize, Deserialize)]
pub enum SigSel {
    Absent,
    Good,
    /// does not verify; the kind selects how (see `World::sig_bytes` / delegated entries)
    Bad(u8),
}

#[derive(Clone, Copy, Debug, Serialize, Deserialize)]
pub enum Focus {
    /// all signers of the selected rule sign correctly
    Exact(u16),
    /// all but one signer of the selected rule sign correctly, the remaining one is absent
    MinusOne(u16, u16),
}

#[derive(Clone, Copy, Debug, PartialEq, Eq, Serialize, Deserialize)]
pub enum CtxSel {
    /// call T0 | T1 | T2 (no rule is ever specific to T2)
    Call(u8),
    /// create W0 | W1 (no rule is ever specific to W1); bool: with-constructor variant
    Create(u8, bool),
}

#[derive(Clone, Copy, Debug, Serialize, Deserialize)]
pub struct PolScript {
    /// bit b set: `can_enforce` answers false for the rule created b-th
    pub cannot_mask: u16,
    /// additionally require this many authenticated signers
    pub need: u8,
    /// bit b set: `enforce` panics for the rule created b-th
    pub refuse_mask: u16,
}

#[derive(Clone, Debug, Serialize, Deserialize)]
pub struct Probe {
    pub adv: Option<Adv>,
    pub sigs: Vec<SigSel>,
    pub focus: Option<Focus>,
    pub contexts: Vec<CtxSel>,
    pub scripts: Vec<PolScript>,
    pub e2e: bool,
    pub payload: u8,
}

#[derive(Clone, Debug, Serialize, Deserialize)]
pub struct Case {
    pub seq: u32,
    pub real_ed: bool,
    pub key_seed: u8,
    pub init: RuleSpec,
    pub ops: Vec<Op>,
    pub probes: Vec<Probe>,
}

// ------------------------------------------------------------------ strategy

fn valid_strategy() -> BoxedStrategy<Valid> {
    prop_oneof![
        5 => Just(Valid::None),
        2 => Just(Valid::Rel(0)),
        4 => (1i8..=4).prop_map(Valid::Rel),
        1 => (-2i8..=-1).prop_map(Valid::Rel),
        1 => Just(Valid::Zero),
    ]
    .boxed()
}

fn rule_spec() -> BoxedStrategy<RuleSpec> {
    let ty = prop_oneof![
        3 => Just(RuleTy::Default),
        3 => Just(RuleTy::Call(0)),
        2 => Just(RuleTy::Call(1)),
        2 => Just(RuleTy::Create),
    ];
    let signers = prop_oneof![
        1 => Just(vec![]),
        4 => proptest::collection::vec(0u8..POOL as u8, 1),
        4 => proptest::collection::vec(0u8..POOL as u8, 2),
        2 => proptest::collection::vec(0u8..POOL as u8, 3),
    ];
    let policies = prop_oneof![
        5 => Just(vec![]),
        4 => proptest::collection::vec(0u8..NPOL as u8, 1),
        2 => proptest::collection::vec(0u8..NPOL as u8, 2),
    ];
    (ty, signers, policies, valid_strategy()).prop_map(|(ty, signers, policies, valid)| RuleSpec { ty, signers, policies, valid }).boxed()
}

fn adv_strategy() -> BoxedStrategy<Adv> {
    prop_oneof![
        2 => (0u8..=3).prop_map(Adv::By),
        5 => (any::<u16>(), -1i8..=1).prop_map(|(r, d)| Adv::ToExpiry(r, d)),
    ]
    .boxed()
}

fn op_strategy() -> BoxedStrategy<Op> {
    prop_oneof![
        10 => rule_spec().prop_map(Op::AddRule),
        2 => any::<u16>().prop_map(Op::RemoveRule),
        2 => (any::<u16>(), 0u8..POOL as u8).prop_map(|(r, s)| Op::AddSigner(r, s)),
        2 => (any::<u16>(), any::<u16>()).prop_map(|(r, s)| Op::RemoveSigner(r, s)),
        2 => (any::<u16>(), 0u8..NPOL as u8).prop_map(|(r, p)| Op::AddPolicy(r, p)),
        2 => (any::<u16>(), any::<u16>()).prop_map(|(r, p)| Op::RemovePolicy(r, p)),
        2 => (any::<u16>(), valid_strategy()).prop_map(|(r, v)| Op::SetValid(r, v)),
        1 => any::<u16>().prop_map(Op::Rename),
        3 => adv_strategy().prop_map(Op::Advance),
    ]
    .boxed()
}

fn sig_sel(absent: u32, good: u32, bad: u32) -> BoxedStrategy<SigSel> {
    prop_oneof![
        absent => Just(SigSel::Absent),
        good => Just(SigSel::Good),
        bad => (0u8..3).prop_map(SigSel::Bad),
    ]
    .boxed()
}

fn probe_strategy() -> BoxedStrategy<Probe> {
    let sigs = (proptest::collection::vec(sig_sel(24, 28, 1), POOL), proptest::collection::vec(sig_sel(28, 6, 1), NSIG - POOL)).prop_map(|(mut a, b)| {
        a.extend(b);
        a
    });
    let focus = prop_oneof![
        3 => Just(None),
        4 => any::<u16>().prop_map(|r| Some(Focus::Exact(r))),
        2 => (any::<u16>(), any::<u16>()).prop_map(|(r, w)| Some(Focus::MinusOne(r, w))),
    ];
    let ctx = prop_oneof![
        4 => Just(CtxSel::Call(0)),
        3 => Just(CtxSel::Call(1)),
        2 => Just(CtxSel::Call(2)),
        3 => any::<bool>().prop_map(|c| CtxSel::Create(0, c)),
        1 => any::<bool>().prop_map(|c| CtxSel::Create(1, c)),
    ];
    let contexts = prop_oneof![
        5 => proptest::collection::vec(ctx.clone(), 1),
        3 => proptest::collection::vec(ctx.clone(), 2),
        2 => proptest::collection::vec(ctx, 3),
    ];
    let script = (any::<[u16; 3]>(), prop_oneof![6 => Just(0u8), 2 => Just(1u8), 1 => Just(2u8)], any::<[u16; 4]>()).prop_map(|(c, need, r)| PolScript {
        cannot_mask: c[0] & c[1] & c[2],
        need,
        refuse_mask: r[0] & r[1] & r[2] & r[3],
    });
    let adv = prop_oneof![6 => Just(None), 4 => adv_strategy().prop_map(Some)];
    (adv, sigs, focus, contexts, proptest::collection::vec(script, NPOL), proptest::bool::weighted(0.2), any::<u8>())
        .prop_map(|(adv, sigs, focus, contexts, scripts, e2e, payload)| Probe { adv, sigs, focus, contexts, scripts, e2e, payload })
        .boxed()
}

fn strategy(tier: Tier) -> BoxedStrategy<Case> {
    let max_ops = tier.pick(12usize, 12usize);
    (
        100u32..100_000,
        proptest::bool::weighted(0.2),
        any::<u8>(),
        rule_spec(),
        proptest::collection::vec(op_strategy(), 0..=max_ops),
        prop_oneof![1 => Just(1usize), 2 => Just(2usize), 3 => Just(3usize), 3 => Just(4usize)].prop_flat_map(|n| proptest::collection::vec(probe_strategy(), n)),
    )
        .prop_map(|(seq, real_ed, key_seed, init, ops, probes)| Case { seq, real_ed, key_seed, init, ops, probes })
        .boxed()
}

// ------------------------------------------------------------------ reference model (from the statement)

#[derive(Clone, Debug)]
struct MRule {
    /// creation order (0 = constructor rule); "newest" = largest
    born: u32,
    /// id the contract assigned
    id: u32,
    ty: RuleTy,
    signers: BTreeSet<usize>,
    policies: BTreeSet<usize>,
    valid_until: Option<u32>,
}

#[derive(Clone, Copy, Debug, PartialEq, Eq)]
enum CtxTy {
    Call(u8),
    Create(u8),
}

fn ctx_ty(c: &CtxSel) -> CtxTy {
    match c {
        CtxSel::Call(t) => CtxTy::Call(*t),
        CtxSel::Create(w, _) => CtxTy::Create(*w),
    }
}

fn rule_matches(ty: RuleTy, c: CtxTy) -> bool {
    match (ty, c) {
        (RuleTy::Call(a), CtxTy::Call(b)) => a == b,
        (RuleTy::Create, CtxTy::Create(w)) => w == 0,
        _ => false,
    }
}

#[derive(Clone, Copy, Debug, PartialEq, Eq)]
enum Variant {
    /// the statement
    Spec,
    // deliberately wrong readings, only used to MEASURE how many probes could tell them apart
    OldestFirst,
    DefaultFirst,
    ExpiredAtValidUntil,
    IgnoreExpiry,
    AnyRuleSigner,
    CountOutsiders,
    NoVerify,
}

#[derive(Clone, Debug, PartialEq, Eq)]
struct Chosen {
    born: u32,
    id: u32,
    auth: BTreeSet<usize>,
    policies: BTreeSet<usize>,
}

#[derive(Clone, Debug, PartialEq, Eq)]
enum Verdict {
    Accept(Vec<Chosen>),
    RejectBadSignature,
    RejectNoRule(usize),
    RejectEnforceRefused,
}
impl Verdict {
    fn accepts(&self) -> bool {
        matches!(self, Verdict::Accept(_))
    }
}

struct ProbeIn<'a> {
    now: u32,
    /// state of every signer 0..NSIG
    sigs: &'a [SigSel],
    contexts: &'a [CtxSel],
    scripts: &'a [PolScript],
}

fn live(r: &MRule, now: u32, v: Variant) -> bool {
    match r.valid_until {
        None => true,
        Some(u) => match v {
            Variant::IgnoreExpiry => true,
            Variant::ExpiredAtValidUntil => u > now,
            // a rule is usable up to and including ledger `valid_until`
            // (`add_context_rule` documents only `valid_until < current` as "in the past")
            _ => u >= now,
        },
    }
}

fn candidates<'a>(rules: &'a [MRule], c: CtxTy, now: u32, v: Variant) -> Vec<&'a MRule> {
    let mut specific: Vec<&MRule> = rules.iter().filter(|r| rule_matches(r.ty, c) && live(r, now, v)).collect();
    let mut default: Vec<&MRule> = rules.iter().filter(|r| r.ty == RuleTy::Default && live(r, now, v)).collect();
    if v == Variant::OldestFirst {
        specific.sort_by_key(|r| r.born);
        default.sort_by_key(|r| r.born);
    } else {
        specific.sort_by_key(|r| std::cmp::Reverse(r.born));
        default.sort_by_key(|r| std::cmp::Reverse(r.born));
    }
    if v == Variant::DefaultFirst {
        default.extend(specific);
        default
    } else {
        specific.extend(default);
        specific
    }
}

fn script_can(s: &PolScript, born: u32, n_auth: usize) -> bool {
    (s.cannot_mask >> born.min(15)) & 1 == 0 && n_auth >= s.need as usize
}
fn script_refuses(s: &PolScript, born: u32) -> bool {
    (s.refuse_mask >> born.min(15)) & 1 == 1
}

/// Executable transcription of the C03 statement.
fn oracle(rules: &[MRule], p: &ProbeIn, v: Variant) -> Verdict {
    // (i) every supplied signature must verify
    if v != Variant::NoVerify && p.sigs.iter().any(|s| matches!(s, SigSel::Bad(_))) {
        return Verdict::RejectBadSignature;
    }
    let supplied: BTreeSet<usize> = p.sigs.iter().enumerate().filter(|(_, s)| **s != SigSel::Absent).map(|(i, _)| i).collect();
    // (ii) every context needs a covering rule: newest first, type-specific before Default
    let mut chosen = vec![];
    for (ci, c) in p.contexts.iter().enumerate() {
        let mut found = None;
        for r in candidates(rules, ctx_ty(c), p.now, v) {
            let auth: BTreeSet<usize> = r.signers.intersection(&supplied).copied().collect();
            let ok = if r.policies.is_empty() {
                match v {
                    Variant::AnyRuleSigner => !auth.is_empty(),
                    Variant::CountOutsiders => supplied.len() >= r.signers.len(),
                    _ => auth.len() == r.signers.len(),
                }
            } else {
                r.policies.iter().all(|pi| script_can(&p.scripts[*pi], r.born, auth.len()))
            };
            if ok {
                found = Some(Chosen { born: r.born, id: r.id, auth, policies: r.policies.clone() });
                break;
            }
        }
        match found {
            Some(c) => chosen.push(c),
            None => return Verdict::RejectNoRule(ci),
        }
    }
    // (iii) the chosen rules' policies are enforced; a refusal rejects
    for c in &chosen {
        if c.policies.iter().any(|pi| script_refuses(&p.scripts[*pi], c.born)) {
            return Verdict::RejectEnforceRefused;
        }
    }
    Verdict::Accept(chosen)
}

// ------------------------------------------------------------------ world

struct World {
    e: Env,
    account: Address,
    mockv: Address,
    policies: Vec<Address>,
    targets: Vec<Address>,
    wasm: Vec<BytesN<32>>,
    signers: Vec<Signer>,
    ed: BTreeMap<usize, SigningKey>,
}

impl World {
    fn signer_idx(&self, s: &Signer) -> Option<usize> {
        self.signers.iter().position(|x| x == s)
    }
    fn policy_idx(&self, a: &Address) -> Option<usize> {
        self.policies.iter().position(|x| x == a)
    }
    fn deleg_addr(&self, idx: usize) -> Address {
        match &self.signers[idx] {
            Signer::Delegated(a) => a.clone(),
            _ => unreachable!("delegated index"),
        }
    }
    fn rule_type(&self, ty: RuleTy) -> ContextRuleType {
        match ty {
            RuleTy::Default => ContextRuleType::Default,
            RuleTy::Call(t) => ContextRuleType::CallContract(self.targets[t as usize].clone()),
            RuleTy::Create => ContextRuleType::CreateContract(self.wasm[0].clone()),
        }
    }
    fn signer_vec(&self, idxs: &[usize]) -> SVec<Signer> {
        let mut v = SVec::new(&self.e);
        for i in idxs {
            v.push_back(self.signers[*i].clone());
        }
        v
    }
    fn policy_map(&self, idxs: &BTreeSet<usize>) -> Map<Address, Val> {
        let mut m = Map::new(&self.e);
        for i in idxs {
            m.set(self.policies[*i].clone(), ().into_val(&self.e));
        }
        m
    }
    /// signature bytes of an external signer for `payload`
    fn sig_bytes(&self, idx: usize, sel: SigSel, payload: &[u8; 32]) -> Bytes {
        let e = &self.e;
        if let Some(k) = self.ed.get(&idx) {
            let good = k.sign(payload).to_bytes();
            match sel {
                SigSel::Bad(0) => {
                    let mut s = good;
                    s[(payload[0] as usize) % 64] ^= 0x04;
                    Bytes::from_array(e, &s)
                }
                SigSel::Bad(1) => {
                    let mut other = *payload;
                    other[31] ^= 1;
                    Bytes::from_array(e, &k.sign(&other).to_bytes())
                }
                SigSel::Bad(_) => Bytes::from_slice(e, &good[..63]),
                _ => Bytes::from_array(e, &good),
            }
        } else {
            match sel {
                SigSel::Bad(0) => Bytes::from_array(e, &[SIG_FALSE, idx as u8]),
                SigSel::Bad(1) => Bytes::from_array(e, &[SIG_PANIC, idx as u8]),
                SigSel::Bad(_) => Bytes::new(e),
                _ => Bytes::from_array(e, &[SIG_GOOD, idx as u8, payload[0]]),
            }
        }
    }
    fn context(&self, c: &CtxSel, rest: &[CtxSel]) -> Context {
        let e = &self.e;
        match c {
            CtxSel::Call(t) => {
                // same shape as the end-to-end call: do_it(account, rest of the call chain)
                let mut chain: SVec<Address> = SVec::new(e);
                for r in rest {
                    if let CtxSel::Call(t2) = r {
                        chain.push_back(self.targets[*t2 as usize].clone());
                    }
                }
                Context::Contract(ContractContext {
                    contract: self.targets[*t as usize].clone(),
                    fn_name: Symbol::new(e, "do_it"),
                    args: args![e; self.account.clone(), chain],
                })
            }
            CtxSel::Create(w, false) => Context::CreateContractHostFn(CreateContractHostFnContext {
                executable: ContractExecutable::Wasm(self.wasm[*w as usize].clone()),
                salt: BytesN::from_array(e, &[7u8; 32]),
            }),
            CtxSel::Create(w, true) => Context::CreateContractWithCtorHostFn(CreateContractWithConstructorHostFnContext {
                executable: ContractExecutable::Wasm(self.wasm[*w as usize].clone()),
                salt: BytesN::from_array(e, &[9u8; 32]),
                constructor_args: args![e; 5u32],
            }),
        }
    }
}

fn setup(case: &Case, init_signers: &[usize], init_policies: &BTreeSet<usize>) -> World {
    let e = envx::new_env(case.seq, envx::BIG_TTL);
    let mockv = e.register(MockVerifier, ());
    let edv = e.register(Ed25519VerifierContract, ());
    let policies: Vec<Address> = (0..NPOL).map(|_| e.register(MockPolicy, ())).collect();
    let targets: Vec<Address> = (0..3).map(|_| e.register(Target, ())).collect();
    let wasm = vec![BytesN::from_array(&e, &[0xA0u8; 32]), BytesN::from_array(&e, &[0xA1u8; 32])];
    let mut signers = vec![];
    let mut ed = BTreeMap::new();
    for idx in 0..NSIG {
        if is_delegated(idx) {
            signers.push(Signer::Delegated(envx::actor(&e)));
        } else if case.real_ed && idx % 2 == 0 {
            let mut seed = [case.key_seed; 32];
            seed[0] = idx as u8 + 1;
            let k = SigningKey::from_bytes(&seed);
            signers.push(Signer::External(edv.clone(), Bytes::from_array(&e, &k.verifying_key().to_bytes())));
            ed.insert(idx, k);
        } else {
            signers.push(Signer::External(mockv.clone(), Bytes::from_array(&e, &[idx as u8 + 1, case.key_seed, 0x5a])));
        }
    }
    let mut w = World { e, account: mockv.clone(), mockv, policies, targets, wasm, signers, ed };
    let account = w.e.register(MultisigContract, (w.signer_vec(init_signers), w.policy_map(init_policies)));
    w.account = account;
    w
}

fn dedup(v: &[u8]) -> Vec<usize> {
    let mut out: Vec<usize> = vec![];
    for x in v {
        if !out.contains(&(*x as usize)) {
            out.push(*x as usize);
        }
    }
    out
}

fn resolve_valid(v: Valid, now: u32) -> Option<u32> {
    match v {
        Valid::None => None,
        Valid::Rel(d) => Some((now as i64 + d as i64).max(0) as u32),
        Valid::Zero => Some(0),
    }
}

/// Resolve a rule selector against the model: index into the live list, or `None` (absent id).
fn sel_rule(rules: &[MRule], sel: u16) -> Option<usize> {
    let i = pick(sel, rules.len() + 1);
    if i < rules.len() {
        Some(i)
    } else {
        None
    }
}

fn advance(w: &World, rules: &[MRule], a: Adv, ctx: &mut Ctx) {
    match a {
        Adv::By(k) => envx::advance(&w.e, k as u32),
        Adv::ToExpiry(r, d) => {
            let with_expiry: Vec<&MRule> = rules.iter().filter(|r| r.valid_until.is_some()).collect();
            if with_expiry.is_empty() {
                return;
            }
            let u = with_expiry[pick(r, with_expiry.len())].valid_until.unwrap() as i64 + d as i64;
            if u >= envx::seq(&w.e) as i64 && u <= u32::MAX as i64 {
                envx::set_seq(&w.e, u as u32);
                ctx.class("advance_to_expiry_edge");
            }
        }
    }
}

fn same_fingerprint(rules: &[MRule], skip: Option<usize>, ty: RuleTy, s: &BTreeSet<usize>, p: &BTreeSet<usize>) -> bool {
    rules.iter().enumerate().any(|(i, r)| Some(i) != skip && r.ty == ty && &r.signers == s && &r.policies == p)
}

/// Executes one admin operation under `mock_all_auths`; the model follows the ACTUAL outcome
/// (set-up is not the subject of C03), the documented outcome is only compared for statistics.
fn apply_op(w: &World, rules: &mut Vec<MRule>, born: &mut u32, op: &Op, ctx: &mut Ctx) -> R {
    let e = &w.e;
    let now = envx::seq(e);
    let acc = &w.account;
    let absent_id = 777u32;
    let note = |ctx: &mut Ctx, what: &str, got: bool, documented: bool| {
        ctx.op(got);
        if got != documented {
            ctx.class(&format!("setup_{what}_{}", if got { "ok_but_documented_error" } else { "failed_unexpectedly" }));
        } else if !got {
            ctx.class(&format!("setup_{what}_refused_as_documented"));
        }
    };
    match op {
        Op::AddRule(spec) => {
            let signers = dedup(&spec.signers);
            let policies: BTreeSet<usize> = spec.policies.iter().map(|p| *p as usize).collect();
            let sset: BTreeSet<usize> = signers.iter().copied().collect();
            let vu = resolve_valid(spec.valid, now);
            let documented = !(sset.is_empty() && policies.is_empty()) && vu.map(|u| u >= now).unwrap_or(true) && !same_fingerprint(rules, None, spec.ty, &sset, &policies) && rules.len() < 15;
            let r = envx::call_t::<ContextRule>(
                e,
                acc,
                "add_context_rule",
                args![e; w.rule_type(spec.ty), SString::from_str(e, "r"), vu, w.signer_vec(&signers), w.policy_map(&policies)],
            );
            note(ctx, "add_rule", r.is_ok(), documented);
            if let Ok(cr) = r {
                rules.push(MRule { born: *born, id: cr.id, ty: spec.ty, signers: sset, policies, valid_until: vu });
                *born += 1;
            }
        }
        Op::RemoveRule(sel) => {
            let ri = sel_rule(rules, *sel);
            let id = ri.map(|i| rules[i].id).unwrap_or(absent_id);
            let r = envx::call(e, acc, "remove_context_rule", args![e; id]);
            note(ctx, "remove_rule", r.is_ok(), ri.is_some());
            if r.is_ok() {
                if let Some(i) = ri {
                    rules.remove(i);
                } else {
                    bail!("C03/setup/removed-absent-rule", "remove_context_rule({id}) succeeded for an id that was never created");
                }
            }
        }
        Op::AddSigner(sel, s) => {
            let ri = sel_rule(rules, *sel);
            let id = ri.map(|i| rules[i].id).unwrap_or(absent_id);
            let si = *s as usize;
            let documented = ri
                .map(|i| {
                    let mut ns = rules[i].signers.clone();
                    !rules[i].signers.contains(&si) && {
                        ns.insert(si);
                        !same_fingerprint(rules, Some(i), rules[i].ty, &ns, &rules[i].policies)
                    }
                })
                .unwrap_or(false);
            let r = envx::call(e, acc, "add_signer", args![e; id, w.signers[si].clone()]);
            note(ctx, "add_signer", r.is_ok(), documented);
            if r.is_ok() {
                match ri {
                    Some(i) => {
                        rules[i].signers.insert(si);
                    }
                    None => bail!("C03/setup/changed-absent-rule", "add_signer on absent rule id {id} succeeded"),
                }
            }
        }
        Op::RemoveSigner(sel, which) => {
            let ri = sel_rule(rules, *sel);
            let id = ri.map(|i| rules[i].id).unwrap_or(absent_id);
            // member of the rule, or (beyond the end) a pool signer that is not a member
            let (si, member) = match ri {
                Some(i) => {
                    let members: Vec<usize> = rules[i].signers.iter().copied().collect();
                    let k = pick(*which, members.len() + 1);
                    if k < members.len() {
                        (members[k], true)
                    } else {
                        ((0..POOL).find(|x| !rules[i].signers.contains(x)).unwrap_or(0), (0..POOL).all(|x| rules[i].signers.contains(&x)))
                    }
                }
                None => (0, false),
            };
            let documented = ri
                .map(|i| {
                    let mut ns = rules[i].signers.clone();
                    ns.remove(&si);
                    member && !(ns.is_empty() && rules[i].policies.is_empty()) && !same_fingerprint(rules, Some(i), rules[i].ty, &ns, &rules[i].policies)
                })
                .unwrap_or(false);
            let r = envx::call(e, acc, "remove_signer", args![e; id, w.signers[si].clone()]);
            note(ctx, "remove_signer", r.is_ok(), documented);
            if r.is_ok() {
                match ri {
                    Some(i) => {
                        rules[i].signers.remove(&si);
                    }
                    None => bail!("C03/setup/changed-absent-rule", "remove_signer on absent rule id {id} succeeded"),
                }
            }
        }
        Op::AddPolicy(sel, p) => {
            let ri = sel_rule(rules, *sel);
            let id = ri.map(|i| rules[i].id).unwrap_or(absent_id);
            let pi = *p as usize;
            let documented = ri
                .map(|i| {
                    let mut np = rules[i].policies.clone();
                    !rules[i].policies.contains(&pi) && {
                        np.insert(pi);
                        !same_fingerprint(rules, Some(i), rules[i].ty, &rules[i].signers, &np)
                    }
                })
                .unwrap_or(false);
            let unit: Val = ().into_val(e);
            let r = envx::call(e, acc, "add_policy", args![e; id, w.policies[pi].clone(), unit]);
            note(ctx, "add_policy", r.is_ok(), documented);
            if r.is_ok() {
                match ri {
                    Some(i) => {
                        rules[i].policies.insert(pi);
                    }
                    None => bail!("C03/setup/changed-absent-rule", "add_policy on absent rule id {id} succeeded"),
                }
            }
        }
        Op::RemovePolicy(sel, which) => {
            let ri = sel_rule(rules, *sel);
            let id = ri.map(|i| rules[i].id).unwrap_or(absent_id);
            let (pi, member) = match ri {
                Some(i) => {
                    let members: Vec<usize> = rules[i].policies.iter().copied().collect();
                    let k = pick(*which, members.len() + 1);
                    if k < members.len() {
                        (members[k], true)
                    } else {
                        ((0..NPOL).find(|x| !rules[i].policies.contains(x)).unwrap_or(0), (0..NPOL).all(|x| rules[i].policies.contains(&x)))
                    }
                }
                None => (0, false),
            };
            let documented = ri
                .map(|i| {
                    let mut np = rules[i].policies.clone();
                    np.remove(&pi);
                    member && !(np.is_empty() && rules[i].signers.is_empty()) && !same_fingerprint(rules, Some(i), rules[i].ty, &rules[i].signers, &np)
                })
                .unwrap_or(false);
            let r = envx::call(e, acc, "remove_policy", args![e; id, w.policies[pi].clone()]);
            note(ctx, "remove_policy", r.is_ok(), documented);
            if r.is_ok() {
                match ri {
                    Some(i) => {
                        rules[i].policies.remove(&pi);
                    }
                    None => bail!("C03/setup/changed-absent-rule", "remove_policy on absent rule id {id} succeeded"),
                }
            }
        }
        Op::SetValid(sel, v) => {
            let ri = sel_rule(rules, *sel);
            let id = ri.map(|i| rules[i].id).unwrap_or(absent_id);
            let vu = resolve_valid(*v, now);
            let documented = ri.is_some() && vu.map(|u| u >= now).unwrap_or(true);
            let r = envx::call(e, acc, "update_context_rule_valid_until", args![e; id, vu]);
            note(ctx, "set_valid_until", r.is_ok(), documented);
            if r.is_ok() {
                match ri {
                    Some(i) => rules[i].valid_until = vu,
                    None => bail!("C03/setup/changed-absent-rule", "update_context_rule_valid_until on absent rule id {id} succeeded"),
                }
            }
        }
        Op::Rename(sel) => {
            let ri = sel_rule(rules, *sel);
            let id = ri.map(|i| rules[i].id).unwrap_or(absent_id);
            let r = envx::call(e, acc, "update_context_rule_name", args![e; id, SString::from_str(e, "renamed")]);
            note(ctx, "rename", r.is_ok(), ri.is_some());
        }
        Op::Advance(a) => advance(w, rules, *a, ctx),
    }
    Ok(())
}

/// The account's getters must show exactly the model's rule set (otherwise the oracle would be
/// evaluated against a rule set the account does not hold).
fn check_rule_set(w: &World, rules: &[MRule]) -> R {
    let e = &w.e;
    let n = envx::call_t::<u32>(e, &w.account, "get_context_rules_count", args![e]).map_err(|er| violation("C03/setup/getter-failed", er))?;
    ensure!(n as usize == rules.len(), "C03/setup/rule-set-mismatch", "get_context_rules_count = {n}, model holds {} rules", rules.len());
    let mut ids = BTreeSet::new();
    for r in rules {
        ensure!(ids.insert(r.id), "C03/setup/rule-set-mismatch", "rule id {} assigned twice", r.id);
        let cr = envx::call_t::<ContextRule>(e, &w.account, "get_context_rule", args![e; r.id]).map_err(|er| violation("C03/setup/getter-failed", format!("get_context_rule({}): {er}", r.id)))?;
        let signers: Option<BTreeSet<usize>> = cr.signers.iter().map(|s| w.signer_idx(&s)).collect();
        let policies: Option<BTreeSet<usize>> = cr.policies.iter().map(|p| w.policy_idx(&p)).collect();
        let same = cr.context_type == w.rule_type(r.ty)
            && signers.as_ref() == Some(&r.signers)
            && cr.signers.len() as usize == r.signers.len()
            && policies.as_ref() == Some(&r.policies)
            && cr.policies.len() as usize == r.policies.len()
            && cr.valid_until == r.valid_until;
        ensure!(
            same,
            "C03/setup/rule-set-mismatch",
            "rule id {}: account holds (signers {:?}, policies {:?}, valid_until {:?}), model {:?}",
            r.id,
            signers,
            policies,
            cr.valid_until,
            r
        );
    }
    Ok(())
}

// ------------------------------------------------------------------ probing

struct Logs {
    policies: Vec<Vec<EnforceRec>>,
    verifier: Vec<VerifyRec>,
}
fn read_logs(w: &World) -> Logs {
    Logs { policies: w.policies.iter().map(|p| policy_log(&w.e, p).iter().collect()).collect(), verifier: verifier_log(&w.e, &w.mockv).iter().collect() }
}

/// Builds the `Signatures` value for `payload` and the auth entries of the delegated signers that sign.
fn build_signatures(w: &World, sigs: &[SigSel], payload: &[u8; 32]) -> (Signatures, Vec<SorobanAuthorizationEntry>) {
    let e = &w.e;
    let mut m: Map<Signer, Bytes> = Map::new(e);
    let mut entries = vec![];
    let payload_bn = BytesN::from_array(e, payload);
    for (idx, sel) in sigs.iter().enumerate() {
        if *sel == SigSel::Absent {
            continue;
        }
        if is_delegated(idx) {
            m.set(w.signers[idx].clone(), Bytes::new(e));
            let who = w.deleg_addr(idx);
            match sel {
                SigSel::Good => entries.push(envx::entry(e, &who, &Inv::new(&w.account, "__check_auth", args![e; payload_bn.clone()]))),
                // no entry at all
                SigSel::Bad(0) => {}
                // an entry for another payload
                SigSel::Bad(1) => {
                    let mut other = *payload;
                    other[0] ^= 0x80;
                    entries.push(envx::entry(e, &who, &Inv::new(&w.account, "__check_auth", args![e; BytesN::from_array(e, &other)])));
                }
                // the right invocation, authorized by somebody else
                _ => {
                    let other = w.deleg_addr(if idx == 10 { 6 } else { 10 });
                    // (only when that other signer does not need the entry itself)
                    if sigs[if idx == 10 { 6 } else { 10 }] == SigSel::Absent {
                        entries.push(envx::entry(e, &other, &Inv::new(&w.account, "__check_auth", args![e; payload_bn.clone()])));
                    }
                }
            }
        } else {
            m.set(w.signers[idx].clone(), w.sig_bytes(idx, *sel, payload));
        }
    }
    (Signatures(m), entries)
}

fn auth_payload(e: &Env, entry: &SorobanAuthorizationEntry) -> Option<[u8; 32]> {
    let SorobanCredentials::Address(c) = &entry.credentials else { return None };
    let pre = HashIdPreimage::SorobanAuthorization(HashIdPreimageSorobanAuthorization {
        network_id: xdr::Hash(e.ledger().network_id().to_array()),
        nonce: c.nonce,
        signature_expiration_ledger: c.signature_expiration_ledger,
        invocation: entry.root_invocation.clone(),
    });
    let bytes = pre.to_xdr(Limits::none()).ok()?;
    Some(Sha256::digest(&bytes).into())
}

fn check_logs(w: &World, before: &Logs, after: &Logs, expect: &Verdict, ctxs: &[Context], sigs: &[SigSel], payload: &[u8; 32], how: &str, what: &str) -> R {
    let e = &w.e;
    match expect {
        Verdict::Accept(chosen) => {
            for (pi, (b, a)) in before.policies.iter().zip(after.policies.iter()).enumerate() {
                ensure!(a.len() >= b.len() && a[..b.len()] == b[..], "C03/enforce/log-not-append-only", "{what} [{how}]: policy {pi} log rewritten");
                let delta = &a[b.len()..];
                let want: Vec<(usize, &Chosen)> = chosen.iter().enumerate().filter(|(_, c)| c.policies.contains(&pi)).collect();
                let describe = || {
                    format!(
                        "policy {pi} received enforce for (context#, rule id, signers) {:?}, expected {:?}",
                        delta
                            .iter()
                            .map(|r| (ctxs.iter().position(|c| c.clone().to_xdr(e) == r.context), r.rule_id, r.signers.iter().map(|s| w.signer_idx(&s)).collect::<Vec<_>>()))
                            .collect::<Vec<_>>(),
                        want.iter().map(|(ci, c)| (*ci, c.id, c.auth.clone())).collect::<Vec<_>>()
                    )
                };
                ensure!(delta.len() == want.len(), "C03/enforce/wrong-policies-enforced", "{what} [{how}]: {}", describe());
                for (rec, (ci, c)) in delta.iter().zip(want.iter()) {
                    let got_signers: Option<BTreeSet<usize>> = rec.signers.iter().map(|s| w.signer_idx(&s)).collect();
                    let ok = rec.context == ctxs[*ci].clone().to_xdr(e)
                        && rec.rule_id == c.id
                        && rec.account == w.account
                        && got_signers.as_ref() == Some(&c.auth)
                        && rec.signers.len() as usize == c.auth.len();
                    ensure!(ok, "C03/enforce/wrong-policies-enforced", "{what} [{how}]: {}", describe());
                }
            }
            // every supplied external signature was really checked against this payload
            let vdelta = &after.verifier[before.verifier.len().min(after.verifier.len())..];
            for (idx, sel) in sigs.iter().enumerate() {
                if *sel == SigSel::Absent || is_delegated(idx) || w.ed.contains_key(&idx) {
                    continue;
                }
                let Signer::External(_, key) = &w.signers[idx] else { continue };
                let sig = w.sig_bytes(idx, *sel, payload);
                let seen = vdelta.iter().any(|r| r.key == *key && r.sig == sig && r.payload == Bytes::from_array(e, payload));
                ensure!(seen, "C03/check_auth/accepted-unverified-signature", "{what} [{how}]: accepted, but the verifier of supplied signer {idx} was never asked about (payload, key, signature)");
            }
        }
        _ => {
            let same = before.policies == after.policies && before.verifier == after.verifier;
            ensure!(same, "C03/check_auth/rejected-but-state-changed", "{what} [{how}]: rejected, yet collaborator logs changed");
        }
    }
    Ok(())
}

fn verdict_sig(expect: &Verdict, got_ok: bool) -> &'static str {
    match (expect, got_ok) {
        (Verdict::RejectBadSignature, true) => "C03/check_auth/accepted-unverified-signature",
        (Verdict::RejectNoRule(_), true) => "C03/check_auth/accepted-without-covering-rule",
        (Verdict::RejectEnforceRefused, true) => "C03/enforce/accepted-despite-refusal",
        _ => "C03/check_auth/rejected-valid",
    }
}

fn run_probe(w: &World, rules: &[MRule], pi: usize, p: &Probe, ctx: &mut Ctx, st: &mut Stats) -> R {
    let e = &w.e;
    if let Some(a) = p.adv {
        advance(w, rules, a, ctx);
    }
    let now = envx::seq(e);
    // ---- resolve the supplied signatures
    let mut sigs: Vec<SigSel> = (0..NSIG).map(|i| p.sigs.get(i).copied().unwrap_or(SigSel::Absent)).collect();
    if !rules.is_empty() {
        match p.focus {
            Some(Focus::Exact(r)) => {
                for s in &rules[pick(r, rules.len())].signers {
                    sigs[*s] = SigSel::Good;
                }
            }
            Some(Focus::MinusOne(r, k)) => {
                let rs: Vec<usize> = rules[pick(r, rules.len())].signers.iter().copied().collect();
                for s in &rs {
                    sigs[*s] = SigSel::Good;
                }
                if !rs.is_empty() {
                    sigs[rs[pick(k, rs.len())]] = SigSel::Absent;
                }
            }
            None => {}
        }
    }
    // ---- contexts (an end-to-end probe needs distinct contract calls)
    let mut sels: Vec<CtxSel> = p.contexts.iter().take(3).copied().collect();
    let mut e2e = false;
    if p.e2e {
        let mut calls: Vec<CtxSel> = vec![];
        for c in &sels {
            if matches!(c, CtxSel::Call(_)) && !calls.contains(c) {
                calls.push(*c);
            }
        }
        if !calls.is_empty() {
            sels = calls;
            e2e = true;
        }
    }
    if sels.is_empty() {
        sels.push(CtxSel::Call(0));
    }
    let ctxs: Vec<Context> = (0..sels.len()).map(|i| w.context(&sels[i], &sels[i + 1..])).collect();
    let mut ctx_vec: SVec<Context> = SVec::new(e);
    for c in &ctxs {
        ctx_vec.push_back(c.clone());
    }
    // ---- scripted policy behaviour for this probe
    let scripts: Vec<PolScript> = (0..NPOL).map(|i| p.scripts.get(i).copied().unwrap_or(PolScript { cannot_mask: 0, need: 0, refuse_mask: 0 })).collect();
    for (pi, pol) in w.policies.iter().enumerate() {
        for r in rules {
            let s = PolicyScript { can: (scripts[pi].cannot_mask >> r.born.min(15)) & 1 == 0, need: scripts[pi].need as u32, enforce_ok: (scripts[pi].refuse_mask >> r.born.min(15)) & 1 == 0 };
            policy_set_script(e, pol, &w.account, r.id, &s);
        }
    }
    // ---- expectation
    let pin = ProbeIn { now, sigs: &sigs, contexts: &sels, scripts: &scripts };
    let expect = oracle(rules, &pin, Variant::Spec);
    let what = format!(
        "probe {pi} at ledger {now}: signatures {:?}, contexts {:?}, rules {:?}, scripts {:?}; statement says {:?}",
        sigs, sels, rules, scripts, expect
    );
    classify(rules, &pin, &expect, ctx, st);

    // ---- direct probe
    let mut payload = [p.payload; 32];
    payload[1] = pi as u8;
    payload[2] = 0xC3;
    let (signatures, entries) = build_signatures(w, &sigs, &payload);
    let before = read_logs(w);
    envx::set_entries(e, &entries);
    let sig_val: Val = signatures.clone().into_val(e);
    let r = e.try_invoke_contract_check_auth::<soroban_sdk::Error>(&w.account, &BytesN::from_array(e, &payload), sig_val, &ctx_vec);
    envx::no_auth(e);
    let got_ok = r.is_ok();
    ctx.op(got_ok);
    ensure!(got_ok == expect.accepts(), verdict_sig(&expect, got_ok), "{what}; __check_auth returned {:?}", r);
    let after = read_logs(w);
    check_logs(w, &before, &after, &expect, &ctxs, &sigs, &payload, "direct", &what)?;

    // ---- the same probe end-to-end
    if e2e {
        ctx.class("e2e_probe");
        let chain_of = |from: usize| -> SVec<Address> {
            let mut v = SVec::new(e);
            for s in &sels[from..] {
                if let CtxSel::Call(t) = s {
                    v.push_back(w.targets[*t as usize].clone());
                }
            }
            v
        };
        let target_of = |i: usize| -> Address {
            match sels[i] {
                CtxSel::Call(t) => w.targets[t as usize].clone(),
                _ => unreachable!("e2e contexts are calls"),
            }
        };
        // invocation tree: do_it(account, chain) -> do_it(account, rest) -> ...
        let mut inv: Option<Inv> = None;
        for i in (0..sels.len()).rev() {
            let node = Inv::new(&target_of(i), "do_it", args![e; w.account.clone(), chain_of(i + 1)]);
            inv = Some(match inv {
                Some(sub) => node.with_sub(sub),
                None => node,
            });
        }
        let inv = inv.expect("at least one context");
        let mut entry = envx::entry_with_sig(e, &w.account, &inv, ScVal::Void);
        let Some(pl) = auth_payload(e, &entry) else { bail!("C03/harness/payload", "cannot compute the authorization payload") };
        let (signatures, mut entries) = build_signatures(w, &sigs, &pl);
        let sv: Val = signatures.into_val(e);
        let sc = ScVal::try_from_val(e, &sv).map_err(|_| violation("C03/harness/scval", "signatures to ScVal"))?;
        if let SorobanCredentials::Address(c) = &mut entry.credentials {
            c.signature = sc;
        }
        entries.insert(0, entry);
        let before = read_logs(w);
        let calls_before: Vec<u32> = w.targets.iter().map(|t| target_calls(e, t)).collect();
        envx::set_entries(e, &entries);
        let r = envx::call(e, &target_of(0), "do_it", args![e; w.account.clone(), chain_of(1)]);
        envx::no_auth(e);
        ctx.op(r.is_ok());
        ensure!(
            r.is_ok() == expect.accepts(),
            format!("{}/e2e", verdict_sig(&expect, r.is_ok())),
            "{what}; direct __check_auth agreed with the statement, but Target.do_it(account) requiring the account's authorization returned {:?}",
            r
        );
        let after = read_logs(w);
        check_logs(w, &before, &after, &expect, &ctxs, &sigs, &pl, "e2e", &what)?;
        let calls_after: Vec<u32> = w.targets.iter().map(|t| target_calls(e, t)).collect();
        for (ti, (b, a)) in calls_before.iter().zip(calls_after.iter()).enumerate() {
            let want = if r.is_ok() && sels.contains(&CtxSel::Call(ti as u8)) { b + 1 } else { *b };
            ensure!(*a == want, "C03/e2e/target-effect", "{what}: target {ti} executed {} times, expected {}", a - b, want - b);
        }
        if r.is_ok() {
            ctx.class("e2e_accept");
        }
    }
    Ok(())
}

#[derive(Default)]
struct Stats {
    accepts: u32,
    rejects: u32,
    competing: bool,
}

/// Class counters: what the probe exercises, and which deliberately wrong readings of the
/// statement it could tell apart from the right one (sensitivity of the generated population).
fn classify(rules: &[MRule], p: &ProbeIn, expect: &Verdict, ctx: &mut Ctx, st: &mut Stats) {
    let supplied: BTreeSet<usize> = p.sigs.iter().enumerate().filter(|(_, s)| **s != SigSel::Absent).map(|(i, _)| i).collect();
    for c in p.contexts {
        let n = candidates(rules, ctx_ty(c), p.now, Variant::Spec).len();
        if n >= 2 {
            st.competing = true;
        }
    }
    match expect {
        Verdict::Accept(chosen) => {
            st.accepts += 1;
            ctx.class("expect_accept");
            if p.contexts.len() >= 2 {
                ctx.class("multi_context_batch_accepted");
            }
            let mut outside = false;
            for (c, sel) in chosen.iter().zip(p.contexts.iter()) {
                let r = rules.iter().find(|r| r.born == c.born).expect("chosen rule in model");
                let cands = candidates(rules, ctx_ty(sel), p.now, Variant::Spec);
                if r.ty == RuleTy::Default {
                    ctx.class("default_rule_used");
                    if cands.iter().any(|x| x.ty != RuleTy::Default) {
                        ctx.class("default_fallback_after_specific_unmet");
                    }
                }
                if cands.first().map(|x| x.born) != Some(c.born) {
                    ctx.class("newer_rule_unmet_older_used");
                }
                if supplied.iter().any(|s| !r.signers.contains(s)) {
                    outside = true;
                }
                if c.auth.iter().any(|s| is_delegated(*s)) {
                    ctx.class("delegated_signer_authenticated");
                }
                if !c.policies.is_empty() {
                    ctx.class("policies_enforced");
                    if c.auth.len() < r.signers.len() {
                        ctx.class("policy_rule_with_partial_signers");
                    }
                }
                if cands.iter().any(|x| x.born != c.born && !x.policies.is_empty()) {
                    ctx.class("other_candidate_has_policies");
                }
            }
            if outside {
                ctx.class("signer_outside_rule_supplied");
            }
        }
        Verdict::RejectBadSignature => {
            st.rejects += 1;
            ctx.class("expect_reject_bad_signature");
            if p.sigs.iter().enumerate().any(|(i, s)| is_delegated(i) && matches!(s, SigSel::Bad(_))) {
                ctx.class("delegated_signer_without_valid_entry");
            }
        }
        Verdict::RejectNoRule(_) => {
            st.rejects += 1;
            ctx.class("expect_reject_no_covering_rule");
        }
        Verdict::RejectEnforceRefused => {
            st.rejects += 1;
            ctx.class("enforce_refusal");
        }
    }
    for c in p.contexts {
        let all = candidates(rules, ctx_ty(c), p.now, Variant::IgnoreExpiry).len();
        let livec = candidates(rules, ctx_ty(c), p.now, Variant::Spec).len();
        if all > livec {
            ctx.class("expired_rule_skipped");
        }
        if rules.iter().any(|r| r.valid_until == Some(p.now) && (r.ty == RuleTy::Default || rule_matches(r.ty, ctx_ty(c)))) {
            ctx.class("candidate_at_valid_until_ledger");
        }
    }
    for (v, name) in [
        (Variant::OldestFirst, "tells_apart:oldest_first"),
        (Variant::DefaultFirst, "tells_apart:default_first"),
        (Variant::ExpiredAtValidUntil, "tells_apart:expiry_boundary"),
        (Variant::IgnoreExpiry, "tells_apart:ignore_expiry"),
        (Variant::AnyRuleSigner, "tells_apart:any_rule_signer"),
        (Variant::CountOutsiders, "tells_apart:count_outsiders"),
        (Variant::NoVerify, "tells_apart:no_verify"),
    ] {
        let alt = oracle(rules, p, v);
        if alt != *expect {
            ctx.class(name);
            if alt.accepts() != expect.accepts() {
                ctx.class(&format!("{name}:verdict"));
            }
        }
    }
}

pub fn run(case: &Case, ctx: &mut Ctx) -> R {
    // constructor rule: Default, no expiry, at least one signer or policy
    let mut init_signers = dedup(&case.init.signers);
    init_signers.retain(|s| *s < POOL);
    let init_policies: BTreeSet<usize> = case.init.policies.iter().map(|p| *p as usize % NPOL).collect();
    if init_signers.is_empty() && init_policies.is_empty() {
        init_signers.push(0);
    }
    let w = setup(case, &init_signers, &init_policies);
    let e = &w.e;
    if case.real_ed {
        ctx.class("case_with_real_ed25519_verifier");
    }
    // the constructor rule's id
    let first = envx::call_t::<SVec<ContextRule>>(e, &w.account, "get_context_rules", args![e; ContextRuleType::Default]).map_err(|er| violation("C03/setup/getter-failed", er))?;
    ensure!(first.len() == 1, "C03/setup/rule-set-mismatch", "constructor created {} default rules", first.len());
    let mut rules = vec![MRule {
        born: 0,
        id: first.get(0).map(|r| r.id).unwrap_or(0),
        ty: RuleTy::Default,
        signers: init_signers.iter().copied().collect(),
        policies: init_policies.clone(),
        valid_until: None,
    }];
    let mut born = 1u32;

    // ---- rule-set history (admin functions need the account's own authorization: mocked, not the subject)
    e.mock_all_auths();
    for op in case.ops.iter().take(12) {
        apply_op(&w, &mut rules, &mut born, op, ctx)?;
    }
    envx::no_auth(e);
    check_rule_set(&w, &rules)?;

    // ---- probes
    let mut st = Stats::default();
    for (pi, p) in case.probes.iter().take(4).enumerate() {
        run_probe(&w, &rules, pi, p, ctx, &mut st)?;
    }
    if st.competing && st.accepts > 0 && st.rejects > 0 {
        ctx.nontrivial = true;
        ctx.class("nontrivial");
    }
    Ok(())
}

fn guards_strategy(_tier: Tier) -> BoxedStrategy<super::c06b::GCase> {
    super::c06b::strategy_for_example("multisig-smart-account")
}
fn run_guards(case: &super::c06b::GCase, ctx: &mut Ctx) -> R {
    super::c06b::run(case, ctx).map_err(|mut v| {
        v.signature = v.signature.replacen("C06/example-guards/", "C03/guards/", 1);
        v
    })
}

pub fn property() -> Property {
    Property {
        id: "C03",
        rule: "case = constructor rule + <=12 admin ops (add rule {Default|CallContract(T0|T1)|CreateContract(W0), signers from a pool of 6 external + 2 delegated, \
               policies from 4 mocks, valid_until None|now-k|now|now+k}, remove rule, add/remove signer, add/remove policy, update valid_until, rename, advance (also to valid_until-1/0/+1)) \
               then 1..4 probes of __check_auth (per signer absent/good/bad incl. unknown signers and delegated signers with/without auth entry; 1..3 contexts from call T0/T1/T2, create W0/W1; \
               scripted can_enforce/enforce per policy and rule); 1/5 of the cases use the real Ed25519 verifier; call-only probes are partly repeated end-to-end. \
               non-trivial = some probed context has >= 2 live candidate rules AND the statement's verdicts over the probes include both accept and reject; distinct = distinct serialised case",
        subs: vec![
            Box::new(Gen::<Case> { name: "check-auth", quick: 1500, thorough: 25000, strategy, run, max_shrink_iters: 2500 }),
            // the example account's self-administration entry points ("Requires smart account authorization") under six
            // authorization variants: rows of the guard audit of props/c06b.rs for this example, whose file C03 anchors
            gen_sub::<super::c06b::GCase>("account-guards", 60, 1200, guards_strategy, run_guards),
        ],
        floors: vec![
            ("nontrivial", 50, 800),
            ("eg_exact_ok:multisig-smart-account.add_signer", 10, 100),
            ("eg_exact_ok:multisig-smart-account.remove_signer", 10, 100),
            ("eg_exact_ok:multisig-smart-account.add_context_rule", 10, 100),
            ("eg_exact_ok:multisig-smart-account.execute", 10, 100),
            ("expired_rule_skipped", 100, 1600),
            ("candidate_at_valid_until_ledger", 90, 1440),
            ("default_fallback_after_specific_unmet", 20, 320),
            ("newer_rule_unmet_older_used", 50, 800),
            ("signer_outside_rule_supplied", 200, 3200),
            ("multi_context_batch_accepted", 80, 1280),
            ("enforce_refusal", 10, 160),
            ("policies_enforced", 200, 3200),
            ("other_candidate_has_policies", 100, 1600),
            ("delegated_signer_authenticated", 90, 1440),
            ("delegated_signer_without_valid_entry", 25, 400),
            ("e2e_accept", 30, 480),
            ("case_with_real_ed25519_verifier", 25, 400),
            ("tells_apart:oldest_first", 40, 640),
            ("tells_apart:default_first", 35, 560),
            ("tells_apart:expiry_boundary", 24, 384),
            ("tells_apart:any_rule_signer", 40, 640),
            ("tells_apart:count_outsiders", 75, 1200),
            ("tells_apart:no_verify", 80, 1280),
        ],
        assumptions: vec![
            "Soroban native test host is trusted (auth manager, rollback of failed invocations, ed25519 host function)",
            "a rule is usable up to and including ledger valid_until (add_context_rule documents only valid_until < current ledger as 'in the past')",
            "policies answer can_enforce deterministically and without panicking (Policy docs: idempotent, side-effect free); verifiers that panic count as 'does not verify'",
            "set-up operations run under mock_all_auths; the model follows their actual outcome and is cross-checked against the account's getters before probing",
        ],
    }
}

//! C12 — Fixed-point mul-div is exact for every input and fails only when it must.
//!
//! Oracle: exact floor / ceil / trunc of x*y/d in `num-bigint`; expected = the value when it
//! fits the result type, otherwise failure; d = 0 => failure.  Checked variants must return
//! exactly `expected`; panicking variants must fail (panic / contract error) iff `expected`
//! is "no value" and otherwise return the same value.  I256 variants: only products that fit
//! in 256 bits are judged (statement's own restriction), plus the I256::MIN / -1 corner.
//! Wad: checked_mul / checked_div / from_ratio are the exact rational truncated toward zero or
//! "no value" iff it does not fit / divisor zero; pow fails iff checked_pow is None, equals it
//! otherwise, pow(x,0)=1, pow(x,1)=x (nothing else about pow is asserted: its value depends on
//! the truncation points of the algorithm; agreement with a transcription is only counted).
//!
//! Sub-checks: `lattice` (exhaustive boundary lattice^3 x 3 roundings x {checked, panicking},
//! direct library calls, panics observed with catch_unwind), `i128` (generated: random bit
//! lengths + triples constructed around the fit boundary; panicking variants through the
//! `MathLib` harness contract AND directly, checked variants through the trait methods),
//! `i256`, `wad`.

use crate::big;
use crate::contracts::c12::mathlib::MathLib;
use crate::engine::*;
use crate::envx;
use crate::gen;
use num_bigint::{BigInt, Sign};
use num_traits::{One, Signed, ToPrimitive, Zero};
use proptest::prelude::*;
use serde::{Deserialize, Serialize};
use serde_json::json;
use soroban_sdk::{Address, Env, TryFromVal, Val, I256};
use std::collections::BTreeMap;
use std::panic::{catch_unwind, AssertUnwindSafe};
use stellar_contract_utils::math::{
    checked_mul_div_i128, checked_mul_div_i256, mul_div_i128, mul_div_i256,
    wad::{Wad, WAD_SCALE},
    Rounding, SorobanMulDiv,
};

// ------------------------------------------------------------------ rounding + oracle

#[derive(Clone, Copy, Debug, PartialEq, Eq)]
enum Rd {
    Floor,
    Ceil,
    Trunc,
}
const RDS: [Rd; 3] = [Rd::Floor, Rd::Ceil, Rd::Trunc];
impl Rd {
    fn lib(self) -> Rounding {
        match self {
            Rd::Floor => Rounding::Floor,
            Rd::Ceil => Rounding::Ceil,
            Rd::Trunc => Rounding::Truncate,
        }
    }
    fn name(self) -> &'static str {
        match self {
            Rd::Floor => "floor",
            Rd::Ceil => "ceil",
            Rd::Trunc => "trunc",
        }
    }
    fn idx(self) -> usize {
        self as usize
    }
}

/// the mathematically rounded quotient n/d, d != 0
fn exact_div(n: &BigInt, d: &BigInt, r: Rd) -> BigInt {
    match r {
        Rd::Floor => big::div_floor(n, d),
        Rd::Ceil => big::div_ceil(n, d),
        Rd::Trunc => big::div_trunc(n, d),
    }
}

fn two_pow(k: u32) -> BigInt {
    BigInt::one() << k
}

/// "within 2^64 of an i128 bound" (judged on the exact quotient, whether or not it fits)
fn near_i128_bound(q: &BigInt) -> bool {
    let w = two_pow(64);
    (q - BigInt::from(i128::MAX)).abs() <= w || (q - BigInt::from(i128::MIN)).abs() <= w
}

fn sgn(x: &BigInt) -> usize {
    match x.sign() {
        Sign::Minus => 0,
        Sign::NoSign => 1,
        Sign::Plus => 2,
    }
}
const SGN: [&str; 3] = ["neg", "zero", "pos"];

// ------------------------------------------------------------------ class tally (cheap, flushed once)

struct Tally {
    m: BTreeMap<&'static str, u64>,
    /// rounding(3) x path(2) x product sign(3) x denominator sign(3)
    sign: [u64; 54],
}
impl Default for Tally {
    fn default() -> Self {
        Tally { m: BTreeMap::new(), sign: [0; 54] }
    }
}
impl Tally {
    fn add(&mut self, k: &'static str) {
        *self.m.entry(k).or_insert(0) += 1;
    }
    fn flush(&self, ctx: &mut Ctx) {
        for (k, v) in &self.m {
            ctx.class_n(k, *v);
        }
        for (i, v) in self.sign.iter().enumerate() {
            if *v > 0 {
                let (r, rest) = (i / 18, i % 18);
                let (path, rest) = (rest / 9, rest % 9);
                let name = format!("i128.{}.{}.p_{}.d_{}", RDS[r].name(), ["native", "i256path"][path], SGN[rest / 3], SGN[rest % 3]);
                ctx.class_n(&name, *v);
            }
        }
    }
}

// ------------------------------------------------------------------ observing calls

/// direct library call; a panic (contract error raised through the Env, or a plain Rust
/// arithmetic panic) is observed as `Err(())`
fn guarded<T>(f: impl FnOnce() -> T) -> Result<T, ()> {
    catch_unwind(AssertUnwindSafe(f)).map_err(|_| ())
}

fn opt_i128_from_val(e: &Env, v: &Val) -> Result<Option<i128>, String> {
    if v.is_void() {
        Ok(None)
    } else {
        i128::try_from_val(e, v).map(Some).map_err(|_| "unexpected return type".to_string())
    }
}

// ------------------------------------------------------------------ i128 judgement

fn judge_checked(api: &str, r: &str, path: &str, got: Result<Option<i128>, ()>, want: Option<i128>, why: &str, input: &dyn Fn() -> String) -> R {
    match (got, want) {
        (Err(()), _) => bail!(format!("C12/{api}/{r}/panicked/{path}"), "checked variant panicked; {}", input()),
        (Ok(Some(v)), None) => {
            bail!(format!("C12/{api}/{r}/value-but-must-fail:{why}/{path}"), "returned {v} but must report no value ({why}); {}", input())
        }
        (Ok(None), Some(w)) => bail!(format!("C12/{api}/{r}/none-but-fits/{path}"), "returned None but the exact result {w} fits; {}", input()),
        (Ok(Some(v)), Some(w)) => {
            ensure!(v == w, format!("C12/{api}/{r}/wrong-value/{path}"), "returned {v}, exact result is {w}; {}", input());
            Ok(())
        }
        (Ok(None), None) => Ok(()),
    }
}

fn judge_panicking(api: &str, r: &str, path: &str, got: Result<i128, ()>, want: Option<i128>, why: &str, input: &dyn Fn() -> String) -> R {
    match (got, want) {
        (Ok(v), None) => bail!(format!("C12/{api}/{r}/returned-but-must-fail:{why}/{path}"), "returned {v} but must fail ({why}); {}", input()),
        (Err(()), Some(w)) => bail!(format!("C12/{api}/{r}/failed-but-fits/{path}"), "failed but the exact result {w} fits; {}", input()),
        (Ok(v), Some(w)) => {
            ensure!(v == w, format!("C12/{api}/{r}/wrong-value/{path}"), "returned {v}, exact result is {w}; {}", input());
            Ok(())
        }
        (Err(()), None) => Ok(()),
    }
}

#[derive(Clone, Copy, PartialEq)]
enum Route {
    /// free functions called directly (lattice)
    DirectFree,
    /// trait methods directly + panicking free function through the contract
    TraitAndContract { checked_via_contract: bool },
}

fn trait_checked(e: &Env, x: i128, y: i128, d: i128, r: Rd) -> Option<i128> {
    match r {
        Rd::Floor => x.checked_mul_div_floor(e, &y, &d),
        Rd::Ceil => x.checked_mul_div_ceil(e, &y, &d),
        Rd::Trunc => x.checked_mul_div(e, &y, &d),
    }
}
fn trait_panicking(e: &Env, x: i128, y: i128, d: i128, r: Rd) -> i128 {
    match r {
        Rd::Floor => x.mul_div_floor(e, &y, &d),
        Rd::Ceil => x.mul_div_ceil(e, &y, &d),
        Rd::Trunc => x.mul_div(e, &y, &d),
    }
}

/// Evaluates one triple under the three roundings, both variants.  Returns the bitmask of
/// roundings for which the evaluation satisfies the non-triviality rule.
fn eval_i128(e: &Env, lib: Option<&Address>, x: i128, y: i128, d: i128, route: Route, t: &mut Tally) -> Result<u8, Violation> {
    let p = big::b(x) * big::b(y);
    let bd = big::b(d);
    let native = x.checked_mul(y).is_some();
    let path = if native { "native" } else { "i256path" };
    let inexact = !bd.is_zero() && !(&p % &bd).is_zero();
    let neg_quot = (p.is_negative() && bd.is_positive()) || (p.is_positive() && bd.is_negative());
    let input = || format!("x={x} y={y} d={d}");
    if d != 0 {
        let fits: Vec<bool> = RDS.iter().map(|r| exact_div(&p, &bd, *r).to_i128().is_some()).collect();
        if fits.iter().any(|f| *f) && fits.iter().any(|f| !*f) {
            t.add("i128.rounding_decides_fit");
        }
    }
    let mut mask = 0u8;
    for r in RDS {
        let (want, why, q): (Option<i128>, &str, Option<BigInt>) = if d == 0 {
            (None, "zero-den", None)
        } else {
            let q = exact_div(&p, &bd, r);
            (q.to_i128(), "no-fit", Some(q))
        };
        // ---- classes
        t.sign[r.idx() * 18 + (!native as usize) * 9 + sgn(&p) * 3 + sgn(&bd)] += 1;
        let near = q.as_ref().map(near_i128_bound).unwrap_or(false);
        let neg_inexact = inexact && neg_quot;
        if !native {
            t.add("i128.phantom_overflow");
        }
        if near {
            t.add("i128.near_bound");
            if want.is_some() {
                t.add("i128.near_bound.fits");
            } else {
                t.add("i128.near_bound.no_fit");
            }
        }
        if neg_inexact {
            t.add("i128.neg_inexact");
        }
        if inexact && !neg_quot {
            t.add("i128.pos_inexact");
        }
        match (want, d == 0) {
            (Some(_), _) => t.add("i128.expect_value"),
            (None, true) => t.add("i128.expect_fail.zero_den"),
            (None, false) => t.add("i128.expect_fail.no_fit"),
        }
        if q.as_ref().map(|q| *q == two_pow(127)).unwrap_or(false) {
            t.add("i128.quotient_is_2^127");
        }
        if !native || near || neg_inexact {
            mask |= 1 << r.idx();
        }
        // ---- calls
        match route {
            Route::DirectFree => {
                let c = guarded(|| checked_mul_div_i128(e, x, y, d, r.lib()));
                judge_checked("checked_mul_div_i128", r.name(), path, c, want, why, &input)?;
                let pz = guarded(|| mul_div_i128(e, x, y, d, r.lib()));
                judge_panicking("mul_div_i128", r.name(), path, pz, want, why, &input)?;
            }
            Route::TraitAndContract { checked_via_contract } => {
                let c = guarded(|| trait_checked(e, x, y, d, r));
                judge_checked("i128::checked_mul_div*", r.name(), path, c, want, why, &input)?;
                let pz = guarded(|| trait_panicking(e, x, y, d, r));
                judge_panicking("i128::mul_div*", r.name(), path, pz, want, why, &input)?;
                let lib = lib.expect("contract route needs the MathLib address");
                let pc = envx::call_t::<i128>(e, lib, "mul_div_i128", args![e; x, y, d, r.lib()]).map_err(|_| ());
                judge_panicking("contract:mul_div_i128", r.name(), path, pc, want, why, &input)?;
                t.add("i128.contract_calls");
                if checked_via_contract {
                    let cc = match envx::call(e, lib, "checked_mul_div_i128", args![e; x, y, d, r.lib()]) {
                        Ok(v) => opt_i128_from_val(e, &v).map_err(|_| ()),
                        Err(_) => Err(()),
                    };
                    judge_checked("contract:checked_mul_div_i128", r.name(), path, cc, want, why, &input)?;
                    t.add("i128.contract_calls");
                }
            }
        }
    }
    Ok(mask)
}

// ------------------------------------------------------------------ (a) exhaustive lattice

fn lattice(tier: Tier) -> Vec<i128> {
    let mut v = gen::i128_lattice();
    if tier == Tier::Thorough {
        let e9 = 1_000_000_000i128;
        for k in [16u32, 48, 65, 80, 100, 112, 120, 125] {
            for dlt in [-1i128, 0, 1] {
                v.push((1i128 << k) + dlt);
                v.push(-((1i128 << k) + dlt));
            }
        }
        for b in [e9, e9 * e9 * e9, i128::MAX / WAD_SCALE, i128::MAX / WAD_SCALE + 1, 13_043_817_825_332_782_212i128] {
            v.push(b);
            v.push(-b);
        }
        v.extend([i128::MIN + 2, i128::MAX - 2, i128::MAX / 3, i128::MIN / 3]);
    }
    v.sort();
    v.dedup();
    v
}

fn lat_slabs(tier: Tier) -> u64 {
    let n = lattice(tier).len() as u64;
    n * n
}

fn lat_run(tier: Tier, slab: u64, ctx: &mut Ctx, out: &mut FixedOut) -> R {
    let lat = lattice(tier);
    let n = lat.len() as u64;
    let (x, y) = (lat[(slab / n) as usize], lat[(slab % n) as usize]);
    let e = envx::new_env(100, envx::BIG_TTL);
    let mut t = Tally::default();
    for &d in &lat {
        match eval_i128(&e, None, x, y, d, Route::DirectFree, &mut t) {
            Ok(mask) => {
                out.evaluations += 3;
                for r in RDS {
                    if mask & (1 << r.idx()) != 0 {
                        out.nontrivial.push(hash_str(&format!("{x},{y},{d},{}", r.name())));
                        if out.samples.is_empty() {
                            out.samples.push(json!({"x": x.to_string(), "y": y.to_string(), "d": d.to_string(), "rounding": r.name()}));
                        }
                    }
                }
                if mask != 0 {
                    ctx.nontrivial = true;
                }
            }
            Err(v) => {
                out.failing = Some(json!({"x": x.to_string(), "y": y.to_string(), "d": d.to_string()}));
                t.flush(ctx);
                return Err(v);
            }
        }
    }
    t.add("lattice.slabs");
    t.flush(ctx);
    Ok(())
}

// ------------------------------------------------------------------ (b) generated i128 triples

/// target quotient next to an i128 bound
#[derive(Clone, Debug, Serialize, Deserialize)]
pub struct QSel {
    /// 0: MAX-off (fits)  1: MAX+1+off (does not fit)  2: MIN+off (fits)  3: MIN-1-off (does not fit)
    pub side: u8,
    pub off: u64,
}
impl QSel {
    fn big(&self) -> BigInt {
        let o = BigInt::from(self.off);
        match self.side % 4 {
            0 => BigInt::from(i128::MAX) - o,
            1 => BigInt::from(i128::MAX) + 1 + o,
            2 => BigInt::from(i128::MIN) + o,
            _ => BigInt::from(i128::MIN) - 1 - o,
        }
    }
}

#[derive(Clone, Debug, Serialize, Deserialize)]
pub enum Trip {
    Raw {
        #[serde(with = "crate::gen::i128_str")]
        x: i128,
        #[serde(with = "crate::gen::i128_str")]
        y: i128,
        #[serde(with = "crate::gen::i128_str")]
        d: i128,
    },
    /// x = d*k, y = trunc(q/k) + dy  =>  x*y/d = k*y exactly (reaches the bound with small |d|)
    Mult {
        #[serde(with = "crate::gen::i128_str")]
        d: i128,
        k: i8,
        q: QSel,
        dy: i8,
    },
    /// d = trunc(x*y/q) + dd  (huge operands, inexact quotients next to the bound)
    FromXY {
        #[serde(with = "crate::gen::i128_str")]
        x: i128,
        #[serde(with = "crate::gen::i128_str")]
        y: i128,
        q: QSel,
        dd: i8,
    },
    /// d = ±x*ratio/2^32 (|x|/4 <= |d| < |x|), y = trunc(q*d/x) + dy
    FromXD {
        #[serde(with = "crate::gen::i128_str")]
        x: i128,
        ratio: u32,
        dneg: bool,
        q: QSel,
        dy: i8,
    },
}

impl Trip {
    /// derive the concrete triple (None: the construction does not yield i128 operands)
    fn resolve(&self) -> Option<(i128, i128, i128)> {
        match self {
            Trip::Raw { x, y, d } => Some((*x, *y, *d)),
            Trip::Mult { d, k, q, dy } => {
                if *k == 0 {
                    return None;
                }
                let x = d.checked_mul(*k as i128)?;
                let y = (big::div_trunc(&q.big(), &BigInt::from(*k)) + BigInt::from(*dy)).to_i128()?;
                Some((x, y, *d))
            }
            Trip::FromXY { x, y, q, dd } => {
                let p = big::b(*x) * big::b(*y);
                let d = (big::div_trunc(&p, &q.big()) + BigInt::from(*dd)).to_i128()?;
                Some((*x, *y, d))
            }
            Trip::FromXD { x, ratio, dneg, q, dy } => {
                if *x == 0 {
                    return None;
                }
                let r = BigInt::from((*ratio).max(1u32 << 30));
                let mut d: BigInt = (big::b(*x) * r) >> 32; // floor; sign of x
                if *dneg {
                    d = -d;
                }
                let d = d.to_i128()?;
                let y = (big::div_trunc(&(q.big() * big::b(d)), &big::b(*x)) + BigInt::from(*dy)).to_i128()?;
                Some((*x, y, d))
            }
        }
    }
    fn kind(&self) -> &'static str {
        match self {
            Trip::Raw { .. } => "i128.gen.raw",
            Trip::Mult { .. } => "i128.gen.mult",
            Trip::FromXY { .. } => "i128.gen.from_xy",
            Trip::FromXD { .. } => "i128.gen.from_xd",
        }
    }
}

fn qsel() -> BoxedStrategy<QSel> {
    (0u8..4, prop_oneof![4 => 0u64..4, 1 => any::<u64>()]).prop_map(|(side, off)| QSel { side, off }).boxed()
}

/// random i128 with bit length in lo..=hi, random sign
fn i128_bits(lo: u32, hi: u32) -> BoxedStrategy<i128> {
    (lo..=hi, any::<u128>(), any::<bool>())
        .prop_map(|(bits, raw, neg)| {
            let m: u128 = if bits == 0 { 0 } else { (raw >> (128 - bits)) | (1u128 << (bits - 1)) };
            let x = m as i128;
            if neg {
                -x
            } else {
                x
            }
        })
        .boxed()
}

fn trip_strategy() -> BoxedStrategy<Trip> {
    prop_oneof![
        5 => (gen::i128_anybits(), gen::i128_anybits(), gen::i128_anybits()).prop_map(|(x, y, d)| Trip::Raw { x, y, d }),
        3 => (gen::i128_full(), gen::i128_full(), gen::i128_full()).prop_map(|(x, y, d)| Trip::Raw { x, y, d }),
        // big product, denominator of comparable size: quotient of moderate size, often inexact
        2 => (i128_bits(64, 127), i128_bits(64, 127), i128_bits(100, 127)).prop_map(|(x, y, d)| Trip::Raw { x, y, d }),
        2 => (gen::i128_anybits(), -8i8..=8, qsel(), -2i8..=2).prop_map(|(d, k, q, dy)| Trip::Mult { d, k, q, dy }),
        3 => (i128_bits(100, 127), i128_bits(100, 127), qsel(), -2i8..=2).prop_map(|(x, y, q, dd)| Trip::FromXY { x, y, q, dd }),
        3 => (i128_bits(3, 127), any::<u32>(), any::<bool>(), qsel(), -2i8..=2)
            .prop_map(|(x, ratio, dneg, q, dy)| Trip::FromXD { x, ratio, dneg, q, dy }),
    ]
    .boxed()
}

#[derive(Clone, Debug, Serialize, Deserialize)]
pub struct Case128 {
    pub trips: Vec<Trip>,
}

const TRIPS_PER_CASE: usize = 32;

fn strat128(_tier: Tier) -> BoxedStrategy<Case128> {
    proptest::collection::vec(trip_strategy(), 1..=TRIPS_PER_CASE).prop_map(|trips| Case128 { trips }).boxed()
}

fn run128(case: &Case128, ctx: &mut Ctx) -> R {
    let e = envx::new_env(100, envx::BIG_TTL);
    let lib = e.register(MathLib, ());
    let mut t = Tally::default();
    let mut res = Ok(());
    for (i, trip) in case.trips.iter().enumerate() {
        let Some((x, y, d)) = trip.resolve() else {
            t.add("i128.gen.construction_out_of_range");
            continue;
        };
        t.add(trip.kind());
        t.add("i128.gen.triples");
        match eval_i128(&e, Some(&lib), x, y, d, Route::TraitAndContract { checked_via_contract: i < 4 }, &mut t) {
            Ok(mask) => {
                ctx.op(true);
                if mask != 0 {
                    ctx.nontrivial = true;
                    t.add("i128.gen.nontrivial_triples");
                }
            }
            Err(mut v) => {
                v.detail = format!("triple #{i} {:?}: {}", trip, v.detail);
                res = Err(v);
                break;
            }
        }
    }
    if ctx.nontrivial {
        t.add("nontrivial");
    }
    t.flush(ctx);
    res
}

// ------------------------------------------------------------------ (c) I256

/// 256-bit two's complement word as four JSON-friendly limbs
#[derive(Clone, Copy, Debug, Serialize, Deserialize, PartialEq, Eq)]
pub struct W {
    pub hh: i64,
    pub hl: u64,
    pub lh: u64,
    pub ll: u64,
}
impl W {
    fn big(&self) -> BigInt {
        let hi: i128 = ((self.hh as i128) << 64) | (self.hl as i128);
        let lo: u128 = ((self.lh as u128) << 64) | (self.ll as u128);
        (BigInt::from(hi) << 128) + BigInt::from(lo)
    }
    fn from_big(v: &BigInt) -> Option<W> {
        if *v < -two_pow(255) || *v >= two_pow(255) {
            return None;
        }
        let u = if v.is_negative() { v + two_pow(256) } else { v.clone() };
        let (_, mut digits) = u.to_u64_digits();
        digits.resize(4, 0);
        Some(W { hh: digits[3] as i64, hl: digits[2], lh: digits[1], ll: digits[0] })
    }
    fn i256(&self, e: &Env) -> I256 {
        I256::from_parts(e, self.hh, self.hl, self.lh, self.ll)
    }
}

fn i256_to_big(v: &I256) -> BigInt {
    let mut a = [0u8; 32];
    v.to_be_bytes().copy_into_slice(&mut a);
    BigInt::from_signed_bytes_be(&a)
}

fn fits_i256(v: &BigInt) -> bool {
    *v >= -two_pow(255) && *v < two_pow(255)
}

fn lattice256() -> Vec<W> {
    let e18 = big::pow10(18);
    let mut v: Vec<BigInt> = vec![];
    for b in [
        BigInt::zero(),
        BigInt::one(),
        BigInt::from(2),
        BigInt::from(3),
        BigInt::from(10),
        two_pow(63),
        two_pow(64),
        e18.clone(),
        two_pow(127),
        two_pow(128),
        &e18 * &e18,
        two_pow(192),
        two_pow(254),
    ] {
        for dl in [-1i32, 0, 1] {
            let x = &b + BigInt::from(dl);
            v.push(-x.clone());
            v.push(x);
        }
    }
    v.push(two_pow(255) - 1);
    v.push(two_pow(255) - 2);
    v.push(-two_pow(255));
    v.push(-two_pow(255) + 1);
    v.sort();
    v.dedup();
    v.iter().filter_map(W::from_big).collect()
}

/// random 256-bit value of bit length <= the drawn length in lo..=hi, random sign
fn w_bits(lo: u32, hi: u32) -> BoxedStrategy<W> {
    (lo..=hi, any::<[u64; 4]>(), any::<bool>())
        .prop_map(|(bits, raw, neg)| {
            let full: BigInt = raw.iter().fold(BigInt::zero(), |acc, l| (acc << 64) + BigInt::from(*l));
            let m = full >> (256 - bits);
            W::from_big(&if neg { -m } else { m }).expect("<= 255 bits")
        })
        .boxed()
}

fn w_den() -> BoxedStrategy<W> {
    prop_oneof![
        5 => w_bits(0, 255),
        2 => proptest::sample::select(lattice256()),
        2 => (-3i64..=3).prop_map(|k| W::from_big(&BigInt::from(k)).unwrap()),
    ]
    .boxed()
}

#[derive(Clone, Debug, Serialize, Deserialize)]
pub enum Trip256 {
    Raw { x: W, y: W, d: W },
    /// y = trunc(P/x) moved `dy` toward zero, P = 2^255-1 (neg=false) or -2^255 (neg=true): product at the edge of the domain
    Edge { x: W, neg: bool, dy: u8, d: W },
    /// x = ±2^a, y = ∓2^(255-a): product is exactly I256::MIN; d small (−1 is the corner)
    MinCorner { a: u8, flip: bool, d: i8 },
}
impl Trip256 {
    fn resolve(&self) -> Option<(W, W, W)> {
        match self {
            Trip256::Raw { x, y, d } => Some((*x, *y, *d)),
            Trip256::Edge { x, neg, dy, d } => {
                let bx = x.big();
                if bx.is_zero() {
                    return None;
                }
                let p = if *neg { -two_pow(255) } else { two_pow(255) - 1 };
                let mut y = big::div_trunc(&p, &bx);
                let step = BigInt::from(*dy);
                if y.abs() >= step {
                    y = if y.is_negative() { y + step } else { y - step };
                }
                Some((*x, W::from_big(&y)?, *d))
            }
            Trip256::MinCorner { a, flip, d } => {
                let a = (*a as u32) % 255 + 1; // 1..=255 ; 2^a fits only for a <= 254 as a positive number
                let (mut x, mut y) = if a <= 254 { (two_pow(a), -two_pow(255 - a)) } else { (-two_pow(255), BigInt::one()) };
                if *flip {
                    std::mem::swap(&mut x, &mut y);
                }
                Some((W::from_big(&x)?, W::from_big(&y)?, W::from_big(&BigInt::from(*d))?))
            }
        }
    }
}

fn trip256_strategy() -> BoxedStrategy<Trip256> {
    let fitting = (0u32..=255).prop_flat_map(|bx| (w_bits(bx, bx), w_bits(0, 255 - bx), w_den())).prop_map(|(x, y, d)| Trip256::Raw { x, y, d });
    let lat = lattice256();
    prop_oneof![
        6 => fitting,
        2 => (proptest::sample::select(lat.clone()), proptest::sample::select(lat.clone()), w_den()).prop_map(|(x, y, d)| Trip256::Raw { x, y, d }),
        3 => (w_bits(1, 255), any::<bool>(), 0u8..3, w_den()).prop_map(|(x, neg, dy, d)| Trip256::Edge { x, neg, dy, d }),
        1 => (any::<u8>(), any::<bool>(), prop_oneof![3 => Just(-1i8), 1 => -3i8..=3]).prop_map(|(a, flip, d)| Trip256::MinCorner { a, flip, d }),
        1 => (w_bits(0, 255), w_bits(0, 255), w_den()).prop_map(|(x, y, d)| Trip256::Raw { x, y, d }),
    ]
    .boxed()
}

#[derive(Clone, Debug, Serialize, Deserialize)]
pub struct Case256 {
    pub trips: Vec<Trip256>,
}
fn strat256(_tier: Tier) -> BoxedStrategy<Case256> {
    proptest::collection::vec(trip256_strategy(), 1..=12).prop_map(|trips| Case256 { trips }).boxed()
}

fn eval_i256(e: &Env, lib: &Address, xw: W, yw: W, dw: W, t: &mut Tally) -> Result<bool, Violation> {
    let (bx, by, bd) = (xw.big(), yw.big(), dw.big());
    let p = &bx * &by;
    let input = || format!("x={bx} y={by} d={bd}");
    if !fits_i256(&p) {
        // outside the statement's domain ("whenever the product fits in 256 bits"): observed, never judged
        t.add("i256.out_of_domain");
        let c = guarded(|| checked_mul_div_i256(e, xw.i256(e), yw.i256(e), dw.i256(e), Rounding::Floor).map(|v| i256_to_big(&v)));
        match c {
            Err(()) => t.add("i256.out_of_domain.checked_panics"),
            Ok(None) => t.add("i256.out_of_domain.checked_none"),
            Ok(Some(_)) => t.add("i256.out_of_domain.checked_value"),
        }
        return Ok(false);
    }
    t.add("i256.in_domain");
    let beyond = p.to_i128().is_none();
    if beyond {
        t.add("i256.product_beyond_i128");
    }
    if p == -two_pow(255) {
        t.add("i256.product_is_min");
    }
    let inexact = !bd.is_zero() && !(&p % &bd).is_zero();
    let neg_quot = (p.is_negative() && bd.is_positive()) || (p.is_positive() && bd.is_negative());
    let mut nontrivial = false;
    for r in RDS {
        let want: Option<BigInt> = if bd.is_zero() { None } else { Some(exact_div(&p, &bd, r)) };
        let fits = want.as_ref().map(fits_i256).unwrap_or(false);
        let rn = r.name();
        let c = guarded(|| checked_mul_div_i256(e, xw.i256(e), yw.i256(e), dw.i256(e), r.lib()).map(|v| i256_to_big(&v)));
        let pd = guarded(|| i256_to_big(&mul_div_i256(e, xw.i256(e), yw.i256(e), dw.i256(e), r.lib())));
        let pc = envx::call_t::<I256>(e, lib, "mul_div_i256", args![e; xw.i256(e), yw.i256(e), dw.i256(e), r.lib()]).map(|v| i256_to_big(&v)).map_err(|_| ());
        t.add("i256.evaluations");
        match &want {
            None => {
                t.add("i256.zero_den");
                // documented: checked variants return None when the denominator is zero
                match &c {
                    Ok(None) => {}
                    Ok(Some(v)) => bail!(format!("C12/checked_mul_div_i256/{rn}/value-but-must-fail:zero-den"), "returned {v}; {}", input()),
                    Err(()) => bail!(format!("C12/checked_mul_div_i256/{rn}/panicked:zero-den"), "checked variant panicked on a zero denominator; {}", input()),
                }
                for (api, got) in [("mul_div_i256", &pd), ("contract:mul_div_i256", &pc)] {
                    if let Ok(v) = got {
                        bail!(format!("C12/{api}/{rn}/returned-but-must-fail:zero-den"), "returned {v}; {}", input());
                    }
                }
            }
            Some(q) if fits => {
                t.add("i256.expect_value");
                if inexact && neg_quot {
                    t.add("i256.neg_inexact");
                    nontrivial = true;
                }
                if inexact && !neg_quot {
                    t.add("i256.pos_inexact");
                }
                if beyond {
                    nontrivial = true;
                }
                if q.to_i128().is_none() {
                    t.add("i256.quotient_beyond_i128");
                }
                match &c {
                    Ok(Some(v)) => ensure!(v == q, format!("C12/checked_mul_div_i256/{rn}/wrong-value"), "returned {v}, exact result is {q}; {}", input()),
                    Ok(None) => bail!(format!("C12/checked_mul_div_i256/{rn}/none-but-fits"), "returned None, exact result {q} fits; {}", input()),
                    Err(()) => bail!(format!("C12/checked_mul_div_i256/{rn}/panicked"), "panicked although product and result {q} fit; {}", input()),
                }
                for (api, got) in [("mul_div_i256", &pd), ("contract:mul_div_i256", &pc)] {
                    match got {
                        Ok(v) => ensure!(v == q, format!("C12/{api}/{rn}/wrong-value"), "returned {v}, exact result is {q}; {}", input()),
                        Err(()) => bail!(format!("C12/{api}/{rn}/failed-but-fits"), "failed although product and result {q} fit; {}", input()),
                    }
                }
            }
            Some(q) => {
                // only I256::MIN / -1: the quotient 2^255 does not fit.  No variant may hand back a value;
                // whether the checked variant says None or panics is left open by the module note.
                t.add("i256.corner_min_div_neg1");
                nontrivial = true;
                match &c {
                    Ok(Some(v)) => bail!(format!("C12/checked_mul_div_i256/{rn}/value-but-must-fail:no-fit"), "returned {v} for the exact result {q}; {}", input()),
                    Ok(None) => t.add("i256.corner.checked_none"),
                    Err(()) => t.add("i256.corner.checked_panics"),
                }
                for (api, got) in [("mul_div_i256", &pd), ("contract:mul_div_i256", &pc)] {
                    if let Ok(v) = got {
                        bail!(format!("C12/{api}/{rn}/returned-but-must-fail:no-fit"), "returned {v} for the exact result {q}; {}", input());
                    }
                }
            }
        }
    }
    Ok(nontrivial)
}

fn run256(case: &Case256, ctx: &mut Ctx) -> R {
    let e = envx::new_env(100, envx::BIG_TTL);
    let lib = e.register(MathLib, ());
    let mut t = Tally::default();
    let mut res = Ok(());
    for (i, trip) in case.trips.iter().enumerate() {
        let Some((x, y, d)) = trip.resolve() else {
            t.add("i256.construction_out_of_range");
            continue;
        };
        match eval_i256(&e, &lib, x, y, d, &mut t) {
            Ok(nt) => {
                ctx.op(true);
                if nt {
                    ctx.nontrivial = true;
                    t.add("i256.nontrivial_triples");
                }
            }
            Err(mut v) => {
                v.detail = format!("triple #{i} {:?}: {}", trip, v.detail);
                res = Err(v);
                break;
            }
        }
    }
    if ctx.nontrivial {
        t.add("nontrivial");
    }
    t.flush(ctx);
    res
}

// ------------------------------------------------------------------ (d) Wad

#[derive(Clone, Debug, Serialize, Deserialize)]
pub enum WOp {
    Mul {
        #[serde(with = "crate::gen::i128_str")]
        a: i128,
        #[serde(with = "crate::gen::i128_str")]
        b: i128,
    },
    /// checked_div(a, b) and from_ratio(a, b)
    Div {
        #[serde(with = "crate::gen::i128_str")]
        a: i128,
        #[serde(with = "crate::gen::i128_str")]
        b: i128,
    },
    /// b = trunc(q*10^18 / a) + db : a*b/10^18 next to the i128 bound
    MulEdge {
        #[serde(with = "crate::gen::i128_str")]
        a: i128,
        q: QSel,
        db: i8,
    },
    /// a = trunc(q*b / 10^18) + da : a*10^18/b next to the i128 bound (needs |b| <= ~10^18)
    DivEdge {
        #[serde(with = "crate::gen::i128_str")]
        b: i128,
        q: QSel,
        da: i8,
    },
    Pow {
        #[serde(with = "crate::gen::i128_str")]
        x: i128,
        n: u32,
    },
}

fn wad_operand() -> BoxedStrategy<i128> {
    // ~ sqrt(i128::MAX * 10^18): squares of these sit at the fit boundary of checked_mul
    const SQRT_EDGE: i128 = 13_043_817_825_332_782_212_062_953_289;
    prop_oneof![
        3 => proptest::sample::select(gen::i128_lattice()),
        3 => (-6i128..=6, -3i128..=3).prop_map(|(k, dl)| k * WAD_SCALE + dl),
        2 => (-2000i128..=2000).prop_map(|m| m * (WAD_SCALE / 1000)),
        4 => gen::i128_anybits(),
        1 => (-3i128..=3, any::<bool>()).prop_map(|(dl, neg)| if neg { -(SQRT_EDGE + dl) } else { SQRT_EDGE + dl }),
        1 => any::<i128>(),
        1 => -1000i128..=1000,
    ]
    .boxed()
}

/// denominators for which a numerator with a*10^18/b = ±2^127 exists in i128 (|b| <= 10^18)
fn div_edge_den() -> BoxedStrategy<i128> {
    prop_oneof![
        3 => (0i128..=4, any::<bool>()).prop_map(|(dl, neg)| if neg { -(WAD_SCALE - dl) } else { WAD_SCALE - dl }),
        3 => (1u32..=60, any::<u64>(), any::<bool>()).prop_map(|(bits, raw, neg)| {
            let m = ((raw >> (64 - bits)) as i128).clamp(1, WAD_SCALE);
            if neg { -m } else { m }
        }),
        2 => (1i128..=9, any::<bool>()).prop_map(|(m, neg)| if neg { -m } else { m }),
        1 => (1i128..=999, any::<bool>()).prop_map(|(m, neg)| (if neg { -m } else { m }) * (WAD_SCALE / 1000)),
    ]
    .boxed()
}

fn pow_base() -> BoxedStrategy<i128> {
    prop_oneof![
        // around 1.0 (interest-rate style)
        4 => (-500_000i128..=500_000).prop_map(|m| WAD_SCALE + m * (WAD_SCALE / 1_000_000)),
        2 => (-3i128..=3).prop_map(|dl| WAD_SCALE + dl),
        // small integers and halves, both signs
        3 => (-24i128..=24).prop_map(|h| h * (WAD_SCALE / 2)),
        // fractions below one
        2 => -WAD_SCALE..=WAD_SCALE,
        2 => wad_operand(),
        1 => -5i128..=5,
    ]
    .boxed()
}

fn pow_exp() -> BoxedStrategy<u32> {
    prop_oneof![
        8 => 0u32..=40,
        2 => 41u32..=300,
        1 => proptest::sample::select(vec![64u32, 127, 128, 255, 256, 1000, 65_535, 65_536, u32::MAX / 2, 1u32 << 31, u32::MAX - 1, u32::MAX]),
        1 => any::<u32>(),
    ]
    .boxed()
}

fn wop_strategy() -> BoxedStrategy<WOp> {
    prop_oneof![
        4 => (wad_operand(), wad_operand()).prop_map(|(a, b)| WOp::Mul { a, b }),
        4 => (wad_operand(), prop_oneof![12 => wad_operand(), 1 => Just(0i128)]).prop_map(|(a, b)| WOp::Div { a, b }),
        2 => (wad_operand(), qsel(), -2i8..=2).prop_map(|(a, q, db)| WOp::MulEdge { a, q, db }),
        2 => (div_edge_den(), qsel(), -2i8..=2).prop_map(|(b, q, da)| WOp::DivEdge { b, q, da }),
        5 => (pow_base(), pow_exp()).prop_map(|(x, n)| WOp::Pow { x, n }),
    ]
    .boxed()
}

#[derive(Clone, Debug, Serialize, Deserialize)]
pub struct CaseWad {
    pub ops: Vec<WOp>,
}
fn strat_wad(_tier: Tier) -> BoxedStrategy<CaseWad> {
    proptest::collection::vec(wop_strategy(), 1..=24).prop_map(|ops| CaseWad { ops }).boxed()
}

fn wad_scale() -> BigInt {
    BigInt::from(WAD_SCALE)
}

/// transcription of the documented algorithm (repeated squaring, truncating division by 10^18 after
/// every multiplication, failure when an intermediate or the final value leaves i128).  Only counted.
fn pow_transcription(x: i128, mut n: u32) -> Option<i128> {
    let s = wad_scale();
    let mut base = big::b(x);
    let mut result = s.clone();
    while n > 0 {
        if n & 1 == 1 {
            result = big::div_trunc(&(&result * &base), &s);
            result.to_i128()?;
        }
        n >>= 1;
        if n > 0 {
            base = big::div_trunc(&(&base * &base), &s);
            base.to_i128()?;
        }
    }
    result.to_i128()
}

fn wad_mul_check(e: &Env, lib: &Address, a: i128, b: i128, via_contract: bool, t: &mut Tally) -> Result<bool, Violation> {
    let p = big::b(a) * big::b(b);
    let q = big::div_trunc(&p, &wad_scale());
    let want = q.to_i128();
    let input = || format!("a={a} b={b}");
    let path = if a.checked_mul(b).is_some() { "native" } else { "i256path" };
    let inexact = !(&p % wad_scale()).is_zero();
    t.add("wad.mul");
    if want.is_none() {
        t.add("wad.mul.expect_none");
    }
    if path == "i256path" {
        t.add("wad.mul.phantom_overflow");
    }
    if inexact && p.is_negative() {
        t.add("wad.mul.neg_inexact");
    }
    if near_i128_bound(&q) {
        t.add("wad.mul.near_bound");
    }
    let c = guarded(|| Wad::from_raw(a).checked_mul(e, Wad::from_raw(b)).map(|w| w.raw()));
    judge_checked("wad.checked_mul", "trunc", path, c, want, "no-fit", &input)?;
    if via_contract {
        let cc = match envx::call(e, lib, "wad_checked_mul", args![e; a, b]) {
            Ok(v) => opt_i128_from_val(e, &v).map_err(|_| ()),
            Err(_) => Err(()),
        };
        judge_checked("contract:wad.checked_mul", "trunc", path, cc, want, "no-fit", &input)?;
    }
    Ok(path == "i256path" || near_i128_bound(&q) || (inexact && p.is_negative()))
}

fn wad_div_check(e: &Env, lib: &Address, a: i128, b: i128, t: &mut Tally) -> Result<bool, Violation> {
    let p = big::b(a) * wad_scale();
    let bb = big::b(b);
    let input = || format!("a={a} b={b}");
    let path = if a.checked_mul(WAD_SCALE).is_some() { "native" } else { "i256path" };
    t.add("wad.div");
    let (want, why, q) = if b == 0 {
        t.add("wad.div.zero_den");
        (None, "zero-den", None)
    } else {
        let q = big::div_trunc(&p, &bb);
        (q.to_i128(), "no-fit", Some(q))
    };
    let neg_quot = (p.is_negative() && bb.is_positive()) || (p.is_positive() && bb.is_negative());
    let inexact = b != 0 && !(&p % &bb).is_zero();
    if want.is_none() && b != 0 {
        t.add("wad.div.expect_none.no_fit");
    }
    if path == "i256path" {
        t.add("wad.div.phantom_overflow");
    }
    if inexact && neg_quot {
        t.add("wad.div.neg_inexact");
    }
    let near = q.as_ref().map(near_i128_bound).unwrap_or(false);
    if near {
        t.add("wad.div.near_bound");
    }
    let c = guarded(|| Wad::from_raw(a).checked_div(e, Wad::from_raw(b)).map(|w| w.raw()));
    judge_checked("wad.checked_div", "trunc", path, c, want, why, &input)?;
    let fr = guarded(|| Wad::from_ratio(e, a, b).raw());
    judge_panicking("wad.from_ratio", "trunc", path, fr, want, why, &input)?;
    let frc = envx::call_t::<i128>(e, lib, "wad_from_ratio", args![e; a, b]).map_err(|_| ());
    judge_panicking("contract:wad.from_ratio", "trunc", path, frc, want, why, &input)?;
    Ok(path == "i256path" || near || (inexact && neg_quot))
}

fn wad_pow_check(e: &Env, lib: &Address, x: i128, n: u32, t: &mut Tally) -> Result<bool, Violation> {
    let input = || format!("x={x} n={n}");
    t.add("wad.pow");
    let c = match guarded(|| Wad::from_raw(x).checked_pow(e, n).map(|w| w.raw())) {
        Ok(c) => c,
        Err(()) => bail!("C12/wad.checked_pow/panicked", "checked_pow panicked; {}", input()),
    };
    let pd = guarded(|| Wad::from_raw(x).pow(e, n).raw());
    let pc = envx::call_t::<i128>(e, lib, "wad_pow", args![e; x, n]).map_err(|_| ());
    for (api, got) in [("wad.pow", pd), ("contract:wad.pow", pc)] {
        match (got, c) {
            (Ok(v), None) => bail!(format!("C12/{api}/returned-but-checked_pow-none"), "pow returned {v} while checked_pow is None; {}", input()),
            (Err(()), Some(w)) => bail!(format!("C12/{api}/failed-but-checked_pow-some"), "pow failed while checked_pow = {w}; {}", input()),
            (Ok(v), Some(w)) => ensure!(v == w, format!("C12/{api}/value-ne-checked_pow"), "pow = {v}, checked_pow = {w}; {}", input()),
            (Err(()), None) => {}
        }
    }
    match c {
        Some(_) => t.add("wad.pow.some"),
        None => t.add("wad.pow.none_overflow"),
    }
    if n == 0 {
        t.add("wad.pow.exp0");
        ensure!(c == Some(WAD_SCALE), "C12/wad.checked_pow/exp0-not-one", "x^0 = {:?}, expected 10^18; {}", c, input());
    }
    if n == 1 {
        t.add("wad.pow.exp1");
        ensure!(c == Some(x), "C12/wad.checked_pow/exp1-not-x", "x^1 = {:?}; {}", c, input());
    }
    // an INTEGER base never meets a truncation: (k * 10^18)^n in fixed point is exactly k^n * 10^18 whatever the order of
    // the multiplications (the documented example: 2^10 = 1024), and when that does not fit there is no value to return
    if n >= 2 && x % WAD_SCALE == 0 && n <= 200 {
        let k = big::b(x / WAD_SCALE);
        let mut exact = wad_scale();
        for _ in 0..n {
            exact *= &k;
            if exact.bits() > 300 {
                break;
            }
        }
        t.add("wad.pow.integer_base");
        match exact.to_i128() {
            Some(w) => ensure!(c == Some(w), "C12/wad.checked_pow/integer-base-wrong-value", "({})^{n} = {:?}, exact value {w}; {}", x / WAD_SCALE, c, input()),
            None => ensure!(c.is_none(), "C12/wad.checked_pow/integer-base-value-but-no-fit", "({})^{n} = {:?} although the exact value does not fit; {}", x / WAD_SCALE, c, input()),
        }
    }
    // counted only (DESIGN §7: the value of pow for n >= 2 depends on the truncation points)
    if n >= 2 {
        if pow_transcription(x, n) == c {
            t.add("wad.pow.eq_transcription");
        } else {
            t.add("wad.pow.ne_transcription");
        }
        if n == 2 {
            let m = guarded(|| Wad::from_raw(x).checked_mul(e, Wad::from_raw(x)).map(|w| w.raw()));
            if m == Ok(c) {
                t.add("wad.pow2.eq_checked_mul");
            } else {
                t.add("wad.pow2.ne_checked_mul");
            }
        }
        if x < 0 {
            t.add("wad.pow.negative_base");
        }
    }
    Ok(c.is_none() || n >= 2)
}

fn run_wad(case: &CaseWad, ctx: &mut Ctx) -> R {
    let e = envx::new_env(100, envx::BIG_TTL);
    let lib = e.register(MathLib, ());
    let mut t = Tally::default();
    let mut res = Ok(());
    for (i, op) in case.ops.iter().enumerate() {
        let r = match op {
            WOp::Mul { a, b } => wad_mul_check(&e, &lib, *a, *b, i < 6, &mut t),
            WOp::Div { a, b } => wad_div_check(&e, &lib, *a, *b, &mut t),
            WOp::MulEdge { a, q, db } => {
                if *a == 0 {
                    t.add("wad.construction_out_of_range");
                    continue;
                }
                match (big::div_trunc(&(q.big() * wad_scale()), &big::b(*a)) + BigInt::from(*db)).to_i128() {
                    Some(b) => {
                        t.add("wad.mul_edge");
                        wad_mul_check(&e, &lib, *a, b, i < 6, &mut t)
                    }
                    None => {
                        t.add("wad.construction_out_of_range");
                        continue;
                    }
                }
            }
            WOp::DivEdge { b, q, da } => match (big::div_trunc(&(q.big() * big::b(*b)), &wad_scale()) + BigInt::from(*da)).to_i128() {
                Some(a) => {
                    t.add("wad.div_edge");
                    wad_div_check(&e, &lib, a, *b, &mut t)
                }
                None => {
                    t.add("wad.construction_out_of_range");
                    continue;
                }
            },
            WOp::Pow { x, n } => wad_pow_check(&e, &lib, *x, *n, &mut t),
        };
        match r {
            Ok(nt) => {
                ctx.op(true);
                if nt {
                    ctx.nontrivial = true;
                }
            }
            Err(mut v) => {
                v.detail = format!("op #{i} {:?}: {}", op, v.detail);
                res = Err(v);
                break;
            }
        }
    }
    if ctx.nontrivial {
        t.add("nontrivial");
    }
    t.flush(ctx);
    res
}

// ------------------------------------------------------------------ property

pub fn property() -> Property {
    let mut p = Property {
        id: "C12",
        rule: "lattice: every (x,y,d) of the boundary lattice^3 x {floor,ceil,trunc}, checked and panicking variant each compared with the exact BigInt quotient \
               (evaluation = one triple under one rounding, both variants); i128/i256/wad: case = vector of generated inputs (random bit lengths and signs, lattice values, \
               triples constructed around the fit boundary q = ±2^127 ∓ k). non-trivial evaluation = x.checked_mul(y) overflows (I256 path) or the exact quotient is within \
               2^64 of an i128 bound or the remainder is non-zero with a negative quotient (i256: product beyond i128, negative inexact quotient or the MIN/-1 corner; \
               wad: same rule on a*b/10^18 resp. a*10^18/b, pow with exponent >= 2 or overflowing); a generated case is non-trivial when it contains such an input; \
               distinct = distinct (x,y,d,rounding) in the lattice, distinct serialised case otherwise",
        subs: vec![
            Box::new(Fixed { name: "lattice", slabs: lat_slabs, run: lat_run }),
            gen_sub::<Case128>("i128", 18_000, 300_000, strat128, run128),
            gen_sub::<Case256>("i256", 8_000, 120_000, strat256, run256),
            gen_sub::<CaseWad>("wad", 12_000, 200_000, strat_wad, run_wad),
            gen_sub::<super::c12b::Case>("wad-api", 8_000, 160_000, super::c12b::strategy, super::c12b::run),
        ],
        // <= 1/10 of the counts measured over seeds 0..5 on the unchanged tree (thorough = 10 x quick; every sub grows by >= 7x)
        floors: vec![
            ("nontrivial", 3_000, 30_000),
            ("lattice.slabs", 4_000, 10_000), // deterministic count n^2 (quick 67^2 = 4489): a wiring guard, deliberately tight
            ("i128.phantom_overflow", 100_000, 1_000_000),
            ("i128.near_bound", 30_000, 300_000),
            ("i128.near_bound.fits", 15_000, 150_000),
            ("i128.near_bound.no_fit", 15_000, 150_000),
            ("i128.neg_inexact", 60_000, 600_000),
            ("i128.rounding_decides_fit", 250, 2_500),
            ("i128.quotient_is_2^127", 700, 7_000),
            ("i128.expect_fail.zero_den", 1_800, 12_000), // thorough lattice has 129 values, so the share of d = 0 is smaller
            ("i128.expect_fail.no_fit", 35_000, 350_000),
            ("i128.expect_value", 120_000, 1_200_000),
            ("i128.contract_calls", 90_000, 900_000),
            ("i128.gen.mult", 2_500, 25_000),
            ("i128.gen.from_xy", 4_000, 40_000),
            ("i128.gen.from_xd", 4_000, 40_000),
            ("i256.expect_value", 10_000, 100_000),
            ("i256.neg_inexact", 4_000, 40_000),
            ("i256.product_beyond_i128", 3_500, 35_000),
            ("i256.product_is_min", 350, 3_500),
            ("i256.corner_min_div_neg1", 800, 8_000),
            ("i256.zero_den", 500, 5_000),
            ("wad.mul.neg_inexact", 1_800, 18_000),
            ("wad.mul.phantom_overflow", 2_000, 20_000),
            ("wad.mul.near_bound", 900, 9_000),
            ("wad.mul.expect_none", 800, 8_000),
            ("wad.div.neg_inexact", 1_800, 18_000),
            ("wad.div.near_bound", 1_500, 15_000),
            ("wad.div.zero_den", 100, 1_000),
            ("wad.div.expect_none.no_fit", 800, 8_000),
            ("wad.pow.some", 3_000, 30_000),
            ("wad.pow.none_overflow", 700, 7_000),
            ("wad.pow.exp0", 60, 600),
            ("wad.pow.exp1", 60, 600),
        ],
        assumptions: vec![
            "num-bigint arithmetic is the reference for exact integer results",
            "Soroban native test host I256 object arithmetic and contract-error propagation are trusted",
            "I256 variants are judged only for products that fit in 256 bits (statement's restriction) plus the I256::MIN / -1 corner (no value may be returned)",
            "Wad::pow value for exponents >= 2 is not asserted (depends on the algorithm's truncation points); only pow/checked_pow agreement, x^0 = 1, x^1 = x",
        ],
    };
    // second half (rest of the public Wad API): props/c12b.rs
    p.floors.extend(super::c12b::FLOORS.iter().cloned());
    p.assumptions.extend(super::c12b::ASSUMPTIONS.iter().cloned());
    p
}

//! C12 — not implemented yet.
use crate::engine::*;

pub fn property() -> Property {
    Property { id: "C12", rule: "", subs: vec![], floors: vec![], assumptions: vec![] }
}

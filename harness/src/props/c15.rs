//! C15 — not implemented yet.
use crate::engine::*;

pub fn property() -> Property {
    Property { id: "C15", rule: "", subs: vec![], floors: vec![], assumptions: vec![] }
}

//! C15 — An RWA identity is verified only by valid claims from currently trusted issuers.
//!
//! Targets (all real library code, wired in `contracts::c15`): `Cti`, `Irs`, `Ident`, `IdVerifier`
//! and `Issuer` (claim issuer written from the claim_issuer module recipe, three schemes).
//!
//! A case is: key seed, initial registry (topics, trusted issuers), a registry history, an initial
//! key-allowance mask and a history of operations: claims (genuinely signed or carrying exactly one
//! defect), after-acceptance defects (key removed, revoked, nonce bumped, ledger time advanced to the
//! expiry boundary, issuer de-listed), registry / key / IRS operations.
//!
//! Oracle: `valid(c)` is computed BY CONSTRUCTION from what was signed and what is presented (no
//! signature is ever verified by the oracle) against a reference model of the issuer state (allowed keys,
//! nonces, revocations, time) written from the module documentation.  After EVERY step:
//!   * every held record is shown to its issuer: `is_claim_valid` succeeds iff valid(c);
//!   * `verify_identity(a)` for every account succeeds iff the account has a registered identity and for
//!     every required topic some CURRENTLY trusted issuer has a matching, valid record (both directions).
//!   * `add_claim` accepts iff valid(c).

use crate::contracts::c15::{cti::Cti, ident::ClaimsStorageKey, ident::Ident, irs::Irs, issuer::Issuer, verifier::IdVerifier};
use crate::engine::*;
use crate::envx::{self, call};
use crate::gen::pick;
use proptest::prelude::*;
use serde::{Deserialize, Serialize};
use sha2::{Digest, Sha256};
use sha3::Keccak256;
use soroban_sdk::testutils::Ledger as _;
use soroban_sdk::xdr::{Limits, ScAddress, ScVal, WriteXdr};
use soroban_sdk::{Address, Bytes, BytesN, Env, Map, String as SString, Val, Vec as SVec};
use std::collections::{BTreeMap, BTreeSet};
use stellar_tokens::rwa::identity_claims::{generate_claim_id, Claim};
use stellar_tokens::rwa::identity_registry_storage::{CountryData, CountryRelation, IndividualCountryRelation};

// ------------------------------------------------------------------ universe

/// topic numbers (index -> number)
const TOPICS: [u32; 4] = [1, 2, 3, 7];
const N_ISS: usize = 3;
const N_IDENT: usize = 2;
const N_ACCT: usize = 3;
const STRANGER: u8 = 0xff;
const MAX_REG_OPS: u32 = 15;

#[derive(Clone, Copy, Debug, PartialEq, Eq, PartialOrd, Ord, Serialize, Deserialize)]
pub enum Scheme {
    Ed,
    K1,
    R1,
}
const SCHEMES: [Scheme; 3] = [Scheme::Ed, Scheme::K1, Scheme::R1];
impl Scheme {
    fn number(self) -> u32 {
        match self {
            Scheme::Ed => 101,
            Scheme::K1 => 102,
            Scheme::R1 => 103,
        }
    }
    fn from_number(n: u32) -> Option<Scheme> {
        match n {
            101 => Some(Scheme::Ed),
            102 => Some(Scheme::K1),
            103 => Some(Scheme::R1),
            _ => None,
        }
    }
    /// documented sig_data length: Ed 32+64, Secp256k1 65+64+4, Secp256r1 65+64
    fn sig_len(self) -> usize {
        match self {
            Scheme::Ed => 96,
            Scheme::K1 => 133,
            Scheme::R1 => 129,
        }
    }
    fn idx(self) -> usize {
        self as usize
    }
    fn name(self) -> &'static str {
        match self {
            Scheme::Ed => "ed25519",
            Scheme::K1 => "secp256k1",
            Scheme::R1 => "secp256r1",
        }
    }
}

// ------------------------------------------------------------------ case

#[derive(Clone, Debug, Serialize, Deserialize)]
pub enum RegOp {
    AddTopic(u8),
    RemoveTopic(u8),
    /// issuer, topic mask over the universe; `clip`: intersect the mask with the currently required topics
    AddIssuer(u8, u8, bool),
    RemoveIssuer(u8),
    UpdateIssuer(u8, u8, bool),
}

#[derive(Clone, Debug, PartialEq, Eq, Serialize, Deserialize)]
pub enum Defect {
    None,
    /// one bit of sig_data (public key, signature or recovery id part) flipped after signing
    SigBitFlip(u16),
    /// one byte of the claim data changed after signing (selector, xor mask)
    DataByteFlip(u16, u8),
    /// signed for the other identity
    OtherIdentity,
    /// signed for another topic
    OtherTopic(u8),
    /// signed with another issuer's address in the message
    OtherIssuer(u8),
    /// signed over another network id (which byte is changed)
    OtherNetwork(u8),
    /// signed with nonce-1 (an old nonce) when the current nonce is > 0, otherwise nonce+1
    WrongNonce,
    /// signed by a key that is not allowed for the topic at this issuer: another key of the issuer that is
    /// allowed for a different topic when one exists (`stranger == false`), else a key nobody registered
    KeyNotAllowed { stranger: bool },
    /// presented with another scheme number: 0/1 = the two other known numbers, 2 = unknown (200), 3 = 0
    WrongScheme(u8),
    /// sig_data cut to a shorter length
    Truncated(u16),
    /// one extra byte appended to sig_data
    Extended,
    /// the (issuer, identity, topic, data) claim is revoked at the issuer BEFORE it is presented
    PreRevoked,
    /// record stored in slot (issuer, topic) whose `issuer` field names another issuer (signed genuinely by the slot issuer)
    SlotIssuer(u8),
    /// record stored in slot (issuer, topic) whose `topic` field names another topic (signed genuinely for the slot topic)
    SlotTopic(u8),
}
impl Defect {
    fn name(&self) -> &'static str {
        match self {
            Defect::None => "none",
            Defect::SigBitFlip(_) => "sig_bit_flip",
            Defect::DataByteFlip(..) => "data_byte_flip",
            Defect::OtherIdentity => "signed_other_identity",
            Defect::OtherTopic(_) => "signed_other_topic",
            Defect::OtherIssuer(_) => "signed_other_issuer",
            Defect::OtherNetwork(_) => "signed_other_network",
            Defect::WrongNonce => "signed_wrong_nonce",
            Defect::KeyNotAllowed { .. } => "key_not_allowed",
            Defect::WrongScheme(_) => "wrong_scheme_number",
            Defect::Truncated(_) => "truncated_sig_data",
            Defect::Extended => "extended_sig_data",
            Defect::PreRevoked => "revoked_before_add",
            Defect::SlotIssuer(_) => "slot_issuer_mismatch",
            Defect::SlotTopic(_) => "slot_topic_mismatch",
        }
    }
}

#[derive(Clone, Debug, Serialize, Deserialize)]
pub enum Target {
    /// pick among the currently trusted (issuer, topic) pairs (falls back to raw indices derived from the selector)
    Trusted(u16),
    Raw(u8, u8),
}
#[derive(Clone, Debug, Serialize, Deserialize)]
pub enum KeySel {
    /// a scheme whose key is currently allowed for (issuer, topic) (falls back to the selector)
    Allowed(u16),
    Raw(Scheme),
}

#[derive(Clone, Debug, Serialize, Deserialize)]
pub struct ClaimOp {
    pub ident: u8,
    pub target: Target,
    pub key: KeySel,
    /// valid_until = timestamp of ledger (now + ttl) + off seconds; ttl == 0 && off == 0 => `valid_until == now` (expired)
    pub ttl: u8,
    pub off: u8,
    pub payload: Vec<u8>,
    pub defect: Defect,
    /// when `add_claim` refuses the claim, place the record into the identity's storage directly
    pub inject: bool,
}

#[derive(Clone, Debug, Serialize, Deserialize)]
pub enum IrsOp {
    Remove(u8),
    Add(u8, u8),
    Modify(u8, u8),
}
#[derive(Clone, Debug, Serialize, Deserialize)]
pub enum Cross {
    Topic(u8),
    Ident,
    Issuer(u8),
}

#[derive(Clone, Debug, Serialize, Deserialize)]
pub enum Op {
    Claim(ClaimOp),
    /// for every required topic of the identity without a valid claim, add a genuine one when some trusted issuer has an allowed key
    Cover { ident: u8, sel: u16, ttl: u8 },
    // ---- defects that arise AFTER acceptance, aimed at a held record
    DropKey(u16),
    Revoke(u16, bool),
    Bump(u16),
    /// the issuer signs the SAME claim data of a held record again under the current nonce (revocation must survive a nonce bump)
    /// (selector preferring currently revoked records, bump the nonce first)
    Resign(u16, bool),
    AdvanceToExpiry(u16, i8),
    /// 0: remove the issuer, 1: update the issuer's topics without the record's topic, 2: remove the topic
    Delist(u16, u8),
    RemoveClaim(u16),
    // ---- raw operations
    Reg(RegOp),
    AllowKey { issuer: u8, scheme: Scheme, topic: u8 },
    RemoveKey { issuer: u8, scheme: Scheme, topic: u8 },
    Advance(u8),
    Irs(IrsOp),
    /// show a held record to an issuer for another topic / identity / at another issuer
    CrossProbe(u16, Cross),
    /// a quiet period of about 35 days (600 000 ledgers) without any call: nothing the issuers or registries
    /// recorded (revocations, nonces, keys, claims) may lapse merely because nobody looked
    LongQuiet,
}

#[derive(Clone, Debug, Serialize, Deserialize)]
pub struct Case {
    pub seed: u64,
    pub seq: u32,
    /// initially required topics (mask over the universe)
    pub topics0: u8,
    /// initial trusted issuers: topic mask per issuer (clipped to topics0; 0 = not trusted)
    pub issuers0: [u8; N_ISS],
    pub reg: Vec<RegOp>,
    /// keys allowed after the registry prefix: bit (issuer*4 + topic_idx)*3 + scheme, where the issuer is trusted for the topic
    pub keys: u64,
    pub ops: Vec<Op>,
}

// ------------------------------------------------------------------ strategy

fn regop_strategy() -> BoxedStrategy<RegOp> {
    // masks: half of the time "every currently required topic" (with clipping), so that topics added late get issuers too
    let mask = || prop_oneof![1 => 0u8..16, 1 => Just(15u8)];
    prop_oneof![
        2 => (0u8..4).prop_map(RegOp::AddTopic),
        2 => (0u8..4).prop_map(RegOp::RemoveTopic),
        4 => (0u8..N_ISS as u8, mask(), proptest::bool::weighted(0.9)).prop_map(|(i, m, c)| RegOp::AddIssuer(i, m, c)),
        1 => (0u8..N_ISS as u8).prop_map(RegOp::RemoveIssuer),
        4 => (0u8..N_ISS as u8, mask(), proptest::bool::weighted(0.9)).prop_map(|(i, m, c)| RegOp::UpdateIssuer(i, m, c)),
    ]
    .boxed()
}

fn scheme_strategy() -> BoxedStrategy<Scheme> {
    proptest::sample::select(SCHEMES.to_vec()).boxed()
}

fn defect_strategy() -> BoxedStrategy<Defect> {
    prop_oneof![
        14 => Just(Defect::None),
        2 => any::<u16>().prop_map(Defect::SigBitFlip),
        2 => (any::<u16>(), 1u8..=255).prop_map(|(a, b)| Defect::DataByteFlip(a, b)),
        2 => Just(Defect::OtherIdentity),
        2 => (0u8..8).prop_map(Defect::OtherTopic),
        2 => (0u8..4).prop_map(Defect::OtherIssuer),
        2 => (0u8..32).prop_map(Defect::OtherNetwork),
        2 => Just(Defect::WrongNonce),
        3 => any::<bool>().prop_map(|stranger| Defect::KeyNotAllowed { stranger }),
        2 => (0u8..4).prop_map(Defect::WrongScheme),
        2 => any::<u16>().prop_map(Defect::Truncated),
        1 => Just(Defect::Extended),
        2 => Just(Defect::PreRevoked),
        2 => (0u8..4).prop_map(Defect::SlotIssuer),
        2 => (0u8..8).prop_map(Defect::SlotTopic),
    ]
    .boxed()
}

fn claim_strategy() -> BoxedStrategy<ClaimOp> {
    let target = prop_oneof![
        9 => any::<u16>().prop_map(Target::Trusted),
        1 => (0u8..N_ISS as u8, 0u8..4).prop_map(|(i, t)| Target::Raw(i, t)),
    ];
    let key = prop_oneof![
        9 => any::<u16>().prop_map(KeySel::Allowed),
        1 => scheme_strategy().prop_map(KeySel::Raw),
    ];
    let ttl = prop_oneof![1 => Just(0u8), 2 => 1u8..=3, 6 => 4u8..=60, 2 => Just(255u8)];
    let off = prop_oneof![3 => Just(0u8), 1 => 1u8..5];
    (
        0u8..N_IDENT as u8,
        target,
        key,
        ttl,
        off,
        proptest::collection::vec(any::<u8>(), 0..6),
        defect_strategy(),
        proptest::bool::weighted(0.85),
    )
        .prop_map(|(ident, target, key, ttl, off, payload, defect, inject)| ClaimOp { ident, target, key, ttl, off, payload, defect, inject })
        .boxed()
}

fn op_strategy() -> BoxedStrategy<Op> {
    let irs = prop_oneof![
        2 => (0u8..N_ACCT as u8).prop_map(IrsOp::Remove),
        2 => (0u8..N_ACCT as u8, 0u8..N_IDENT as u8).prop_map(|(a, i)| IrsOp::Add(a, i)),
        2 => (0u8..N_ACCT as u8, 0u8..N_IDENT as u8).prop_map(|(a, i)| IrsOp::Modify(a, i)),
    ];
    let cross = prop_oneof![
        2 => (0u8..8).prop_map(Cross::Topic),
        1 => Just(Cross::Ident),
        1 => (0u8..4).prop_map(Cross::Issuer),
    ];
    prop_oneof![
        16 => claim_strategy().prop_map(Op::Claim),
        9 => (0u8..N_IDENT as u8, any::<u16>(), 2u8..=60).prop_map(|(ident, sel, ttl)| Op::Cover { ident, sel, ttl }),
        3 => any::<u16>().prop_map(Op::DropKey),
        3 => (any::<u16>(), proptest::bool::weighted(0.8)).prop_map(|(s, r)| Op::Revoke(s, r)),
        3 => any::<u16>().prop_map(Op::Bump),
        3 => (any::<u16>(), any::<bool>()).prop_map(|(s, b)| Op::Resign(s, b)),
        4 => (any::<u16>(), -1i8..=1).prop_map(|(s, d)| Op::AdvanceToExpiry(s, d)),
        3 => (any::<u16>(), 0u8..3).prop_map(|(s, h)| Op::Delist(s, h)),
        1 => any::<u16>().prop_map(Op::RemoveClaim),
        3 => regop_strategy().prop_map(Op::Reg),
        2 => (0u8..N_ISS as u8, scheme_strategy(), 0u8..4).prop_map(|(issuer, scheme, topic)| Op::AllowKey { issuer, scheme, topic }),
        1 => (0u8..N_ISS as u8, scheme_strategy(), 0u8..4).prop_map(|(issuer, scheme, topic)| Op::RemoveKey { issuer, scheme, topic }),
        2 => (0u8..=8).prop_map(Op::Advance),
        1 => Just(Op::LongQuiet),
        1 => irs.prop_map(Op::Irs),
        3 => (any::<u16>(), cross).prop_map(|(s, c)| Op::CrossProbe(s, c)),
    ]
    .boxed()
}

fn strategy(tier: Tier) -> BoxedStrategy<Case> {
    let max_ops = tier.pick(22usize, 40usize);
    // at least two required topics most of the time
    let topics0 = prop_oneof![1 => 0u8..16, 6 => (0u8..16).prop_map(|m| if m.count_ones() < 2 { m | 0b0011 } else { m })];
    let imask = prop_oneof![1 => Just(0u8), 5 => 1u8..16, 2 => Just(15u8)];
    (
        any::<u64>(),
        100u32..100_000,
        topics0,
        [prop_oneof![1 => Just(0u8), 3 => 1u8..16, 4 => Just(15u8)], imask.clone(), imask],
        proptest::collection::vec(regop_strategy(), 0..5),
        // dense key allowance: each bit set with probability 3/4
        (any::<u64>(), any::<u64>()).prop_map(|(a, b)| a | b),
        proptest::collection::vec(op_strategy(), 0..max_ops),
    )
        .prop_map(|(seed, seq, topics0, issuers0, reg, keys, ops)| Case { seed, seq, topics0, issuers0, reg, keys, ops })
        .boxed()
}

// ------------------------------------------------------------------ independent cryptography

fn sha256(parts: &[&[u8]]) -> [u8; 32] {
    let mut h = Sha256::new();
    for p in parts {
        h.update(p);
    }
    h.finalize().into()
}
fn keccak256(data: &[u8]) -> [u8; 32] {
    let mut h = Keccak256::new();
    h.update(data);
    h.finalize().into()
}

/// secret key bytes derived from the case seed: (owner, scheme) -> 32 bytes
fn secret(seed: u64, owner: u8, scheme: Scheme, ctr: u8) -> [u8; 32] {
    sha256(&[b"verif-c15-key", &seed.to_le_bytes(), &[owner, scheme.idx() as u8, ctr]])
}

enum Key {
    Ed(ed25519_dalek::SigningKey),
    K1(k256::ecdsa::SigningKey),
    R1(p256::ecdsa::SigningKey),
}
impl Key {
    fn derive(seed: u64, owner: u8, scheme: Scheme) -> Key {
        for ctr in 0..=255u8 {
            let s = secret(seed, owner, scheme, ctr);
            match scheme {
                Scheme::Ed => return Key::Ed(ed25519_dalek::SigningKey::from_bytes(&s)),
                Scheme::K1 => {
                    if let Ok(k) = k256::ecdsa::SigningKey::from_slice(&s) {
                        return Key::K1(k);
                    }
                }
                Scheme::R1 => {
                    if let Ok(k) = p256::ecdsa::SigningKey::from_slice(&s) {
                        return Key::R1(k);
                    }
                }
            }
        }
        unreachable!("256 consecutive out-of-range scalars")
    }
    /// public key bytes as they appear in sig_data and in `allow_key` (Ed: 32 raw bytes; secp: 65-byte uncompressed SEC1)
    fn public(&self) -> Vec<u8> {
        match self {
            Key::Ed(k) => k.verifying_key().to_bytes().to_vec(),
            Key::K1(k) => k.verifying_key().to_encoded_point(false).as_bytes().to_vec(),
            Key::R1(k) => k.verifying_key().to_encoded_point(false).as_bytes().to_vec(),
        }
    }
    /// sig_data for the message in the layout documented for the scheme's verifier
    fn sign(&self, msg: &[u8]) -> Vec<u8> {
        let mut out = self.public();
        match self {
            Key::Ed(k) => {
                use ed25519_dalek::Signer;
                out.extend_from_slice(&k.sign(msg).to_bytes());
            }
            Key::K1(k) => {
                // keccak256 digest, recoverable, low-S; recovery id as 4 big-endian bytes
                let digest = keccak256(msg);
                let (sig, recid) = k.sign_prehash_recoverable(&digest).expect("k256 sign");
                let (sig, rec) = match sig.normalize_s() {
                    Some(n) => (n, recid.to_byte() ^ 1),
                    None => (sig, recid.to_byte()),
                };
                out.extend_from_slice(&sig.to_bytes());
                out.extend_from_slice(&(rec as u32).to_be_bytes());
            }
            Key::R1(k) => {
                use p256::ecdsa::signature::hazmat::PrehashSigner;
                let digest = sha256(&[msg]);
                let sig: p256::ecdsa::Signature = k.sign_prehash(&digest).expect("p256 sign");
                let sig = sig.normalize_s().unwrap_or(sig);
                out.extend_from_slice(&sig.to_bytes());
            }
        }
        out
    }
}

fn addr_xdr(a: &Address) -> Vec<u8> {
    let sc = ScAddress::try_from(a).expect("address to ScAddress");
    ScVal::Address(sc).to_xdr(Limits::none()).expect("xdr")
}

/// documented message layout: network_id || claim_issuer || identity || claim_topic || nonce || claim_data
fn claim_message(net: &[u8; 32], issuer: &Address, identity: &Address, topic: u32, nonce: u32, data: &[u8]) -> Vec<u8> {
    let mut m = net.to_vec();
    m.extend_from_slice(&addr_xdr(issuer));
    m.extend_from_slice(&addr_xdr(identity));
    m.extend_from_slice(&topic.to_be_bytes());
    m.extend_from_slice(&nonce.to_be_bytes());
    m.extend_from_slice(data);
    m
}

/// documented claim-data layout: created_at (8 bytes BE) || valid_until (8 bytes BE) || payload
fn encode_data(created_at: u64, valid_until: u64, payload: &[u8]) -> Vec<u8> {
    let mut d = created_at.to_be_bytes().to_vec();
    d.extend_from_slice(&valid_until.to_be_bytes());
    d.extend_from_slice(payload);
    d
}
fn valid_until_of(data: &[u8]) -> Option<u64> {
    if data.len() < 16 {
        return None;
    }
    let mut b = [0u8; 8];
    b.copy_from_slice(&data[8..16]);
    Some(u64::from_be_bytes(b))
}

// ------------------------------------------------------------------ model

/// What was signed (by construction) and with which key.
#[derive(Clone, Debug)]
struct Signed {
    net_ok: bool,
    issuer: usize,
    ident: usize,
    topic: u32,
    nonce: u32,
    data: Vec<u8>,
    key_owner: u8,
    key_scheme: Scheme,
}

/// A claim as presented (to `add_claim`, `is_claim_valid`) or held in an identity's storage.
#[derive(Clone, Debug)]
struct Rec {
    f_issuer: usize,
    f_topic: u32,
    scheme_no: u32,
    sig_data: Vec<u8>,
    data: Vec<u8>,
    signed: Signed,
    /// sig_data is exactly what the signer produced
    sig_intact: bool,
    defect: &'static str,
}

#[derive(Default)]
struct Model {
    topics: Vec<u32>,
    issuers: BTreeMap<usize, Vec<u32>>,
    allowed: BTreeSet<(usize, Scheme, u32)>,
    nonce: BTreeMap<(usize, usize, u32), u32>,
    revoked: BTreeMap<(usize, usize, u32, Vec<u8>), bool>,
    irs: BTreeMap<usize, usize>,
    /// (identity, slot issuer, slot topic) -> record
    recs: BTreeMap<(usize, usize, u32), Rec>,
    reg_ops: u32,
}

impl Model {
    fn trusted(&self, issuer: usize, topic: u32) -> bool {
        self.issuers.get(&issuer).map(|ts| ts.contains(&topic)).unwrap_or(false)
    }
    fn trusted_for(&self, topic: u32) -> Vec<usize> {
        self.issuers.iter().filter(|(_, ts)| ts.contains(&topic)).map(|(i, _)| *i).collect()
    }
    fn trusted_pairs(&self) -> Vec<(usize, u32)> {
        let mut v = vec![];
        for (i, ts) in &self.issuers {
            for t in ts {
                v.push((*i, *t));
            }
        }
        v
    }
    fn nonce_of(&self, issuer: usize, ident: usize, topic: u32) -> u32 {
        self.nonce.get(&(issuer, ident, topic)).copied().unwrap_or(0)
    }
    /// The statement's issuer clause: the claim is confirmed iff it is signed over this network, issuer,
    /// identity, topic, current nonce and data by a key currently allowed for the topic, and it is neither
    /// expired, revoked nor invalidated by a nonce bump.  Returns the first reason for rejection.
    fn why_invalid(&self, r: &Rec, issuer: usize, ident: usize, topic: u32, now: u64) -> Option<(&'static str, &'static str)> {
        let Some(sch) = Scheme::from_number(r.scheme_no) else { return Some(("wrong_scheme", "unknown scheme number")) };
        if r.sig_data.len() != sch.sig_len() {
            return Some(("sig_data_length", "sig_data length does not fit the scheme"));
        }
        if sch != r.signed.key_scheme {
            return Some(("wrong_scheme", "scheme number is not the signing key's scheme"));
        }
        if !r.sig_intact {
            return Some(("sig_tampered", "sig_data tampered"));
        }
        if r.signed.key_owner as usize != issuer || !self.allowed.contains(&(issuer, sch, topic)) {
            return Some(("key_not_allowed", "signing key is not (or no longer) allowed for the topic at this issuer"));
        }
        match valid_until_of(&r.data) {
            None => return Some(("no_expiration_header", "claim data without expiration header")),
            Some(vu) if now >= vu => return Some(("expired", "expired: valid_until <= ledger timestamp")),
            _ => {}
        }
        if self.revoked.get(&(issuer, ident, topic, r.data.clone())).copied().unwrap_or(false) {
            return Some(("revoked", "revoked at the issuer"));
        }
        if !r.signed.net_ok {
            return Some(("other_network", "signed for another network id"));
        }
        if r.signed.issuer != issuer {
            return Some(("other_issuer", "signed for another issuer"));
        }
        if r.signed.ident != ident {
            return Some(("other_identity", "signed for another identity"));
        }
        if r.signed.topic != topic {
            return Some(("other_topic", "signed for another topic"));
        }
        if r.signed.nonce != self.nonce_of(issuer, ident, topic) {
            return Some(("stale_nonce", "signed with a nonce that is not the current one"));
        }
        if r.signed.data != r.data {
            return Some(("data_tampered", "data differs from the signed data"));
        }
        None
    }
    /// does the record held in slot (ident, issuer, topic) count for (issuer, topic)?
    fn counts(&self, ident: usize, issuer: usize, topic: u32, now: u64) -> bool {
        match self.recs.get(&(ident, issuer, topic)) {
            Some(r) => r.f_issuer == issuer && r.f_topic == topic && self.why_invalid(r, issuer, ident, topic, now).is_none(),
            None => false,
        }
    }
    /// (strict, lenient): strict = the statement; lenient = the statement with topics that have no trusted issuer skipped
    fn expect_verify(&self, acct: usize, now: u64) -> (bool, bool) {
        let Some(&ident) = self.irs.get(&acct) else { return (false, false) };
        let (mut strict, mut lenient) = (true, true);
        for &t in &self.topics {
            let iss = self.trusted_for(t);
            let sat = iss.iter().any(|&i| self.counts(ident, i, t, now));
            if !sat {
                strict = false;
                if !iss.is_empty() {
                    lenient = false;
                }
            }
        }
        (strict, lenient)
    }
}

// ------------------------------------------------------------------ world

struct World {
    e: Env,
    op: Address,
    cti: Address,
    irs: Address,
    verifier: Address,
    issuers: Vec<Address>,
    idents: Vec<Address>,
    accts: Vec<Address>,
    net: [u8; 32],
    seed: u64,
    keys: BTreeMap<(u8, usize), Key>,
    m: Model,
}

fn bytes(e: &Env, v: &[u8]) -> Bytes {
    Bytes::from_slice(e, v)
}
fn topics_of_mask(mask: u8) -> Vec<u32> {
    (0..4).filter(|k| mask & (1 << k) != 0).map(|k| TOPICS[k]).collect()
}
fn topic_number(k: u8) -> u32 {
    // indices 0..4 are the universe, larger ones are numbers no registry ever holds
    if (k as usize) < TOPICS.len() {
        TOPICS[k as usize]
    } else {
        1000 + k as u32
    }
}

impl World {
    fn now(&self) -> u64 {
        self.e.ledger().timestamp()
    }
    fn key(&mut self, owner: u8, scheme: Scheme) -> &Key {
        let seed = self.seed;
        self.keys.entry((owner, scheme.idx())).or_insert_with(|| Key::derive(seed, owner, scheme))
    }
    fn pubkey(&mut self, owner: u8, scheme: Scheme) -> Vec<u8> {
        self.key(owner, scheme).public()
    }
    /// privileged call (authorization is not the subject of C15)
    fn admin(&self, c: &Address, f: &str, args: SVec<Val>) -> Result<Val, String> {
        self.e.mock_all_auths();
        let r = call(&self.e, c, f, args);
        envx::no_auth(&self.e);
        r
    }

    // ---- registry

    fn reg_op(&mut self, op: &RegOp, ctx: &mut Ctx, what: &str) -> R {
        if self.m.reg_ops >= MAX_REG_OPS {
            ctx.class("registry_op_cap_skipped");
            return Ok(());
        }
        self.m.reg_ops += 1;
        let e = self.e.clone();
        let clip = |mask: u8, m: &Model| -> Vec<u32> { topics_of_mask(mask).into_iter().filter(|t| m.topics.contains(t)).collect() };
        let (res, expect): (Result<Val, String>, bool) = match op {
            RegOp::AddTopic(k) => {
                let t = TOPICS[*k as usize % 4];
                let ok = !self.m.topics.contains(&t);
                let r = self.admin(&self.cti, "add_claim_topic", args![&e; t, self.op.clone()]);
                if ok && r.is_ok() {
                    self.m.topics.push(t);
                }
                (r, ok)
            }
            RegOp::RemoveTopic(k) => {
                let t = TOPICS[*k as usize % 4];
                let ok = self.m.topics.contains(&t);
                let r = self.admin(&self.cti, "remove_claim_topic", args![&e; t, self.op.clone()]);
                if ok && r.is_ok() {
                    self.m.topics.retain(|x| *x != t);
                    for ts in self.m.issuers.values_mut() {
                        ts.retain(|x| *x != t);
                    }
                    ctx.class("reg_remove_topic");
                }
                (r, ok)
            }
            RegOp::AddIssuer(i, mask, c) => {
                let i = *i as usize % N_ISS;
                let ts = if *c { clip(*mask, &self.m) } else { topics_of_mask(*mask) };
                let ok = !ts.is_empty() && ts.iter().all(|t| self.m.topics.contains(t)) && !self.m.issuers.contains_key(&i);
                let r = self.admin(&self.cti, "add_trusted_issuer", args![&e; self.issuers[i].clone(), SVec::from_slice(&e, &ts), self.op.clone()]);
                if ok && r.is_ok() {
                    self.m.issuers.insert(i, ts);
                }
                (r, ok)
            }
            RegOp::RemoveIssuer(i) => {
                let i = *i as usize % N_ISS;
                let ok = self.m.issuers.contains_key(&i);
                let r = self.admin(&self.cti, "remove_trusted_issuer", args![&e; self.issuers[i].clone(), self.op.clone()]);
                if ok && r.is_ok() {
                    self.m.issuers.remove(&i);
                    ctx.class("reg_remove_issuer");
                }
                (r, ok)
            }
            RegOp::UpdateIssuer(i, mask, c) => {
                let i = *i as usize % N_ISS;
                let ts = if *c { clip(*mask, &self.m) } else { topics_of_mask(*mask) };
                let ok = !ts.is_empty() && ts.iter().all(|t| self.m.topics.contains(t)) && self.m.issuers.contains_key(&i);
                let r = self.admin(&self.cti, "update_issuer_claim_topics", args![&e; self.issuers[i].clone(), SVec::from_slice(&e, &ts), self.op.clone()]);
                if ok && r.is_ok() {
                    self.m.issuers.insert(i, ts);
                    ctx.class("reg_update_issuer");
                }
                (r, ok)
            }
        };
        ctx.op(res.is_ok());
        ensure!(
            res.is_ok() == expect,
            "C15/registry/outcome-differs-from-documentation",
            "{what}: {:?} {} but the documented preconditions say it should {}: {:?}",
            op,
            if res.is_ok() { "succeeded" } else { "failed" },
            if expect { "succeed" } else { "fail" },
            res.err()
        );
        self.check_registry(what)
    }

    /// the registry's own view must equal the model (this is what "currently trusted for the topic" means)
    fn check_registry(&self, what: &str) -> R {
        let e = &self.e;
        let got: Map<u32, SVec<Address>> =
            envx::call_t(e, &self.cti, "get_claim_topics_and_issuers", args![e]).map_err(|er| violation("C15/registry/getter-failed", format!("{what}: {er}")))?;
        let mut g: BTreeMap<u32, BTreeSet<usize>> = BTreeMap::new();
        for (t, v) in got.iter() {
            let mut s = BTreeSet::new();
            for a in v.iter() {
                match self.issuers.iter().position(|x| *x == a) {
                    Some(i) => {
                        s.insert(i);
                    }
                    None => bail!("C15/registry/unknown-issuer-listed", "{what}: registry lists an address that was never added for topic {t}"),
                }
            }
            g.insert(t, s);
        }
        let mut w: BTreeMap<u32, BTreeSet<usize>> = BTreeMap::new();
        for &t in &self.m.topics {
            w.insert(t, self.m.trusted_for(t).into_iter().collect());
        }
        ensure!(g == w, "C15/registry/state-differs-from-model", "{what}: get_claim_topics_and_issuers = {:?}, model {:?}", g, w);
        Ok(())
    }

    // ---- issuer keys

    fn allow_key(&mut self, i: usize, scheme: Scheme, topic: u32, ctx: &mut Ctx, what: &str) -> R {
        let e = self.e.clone();
        let pk = self.pubkey(i as u8, scheme);
        let expect = self.m.trusted(i, topic) && !self.m.allowed.contains(&(i, scheme, topic));
        let r = self.admin(&self.issuers[i], "allow_key", args![&e; bytes(&e, &pk), self.cti.clone(), scheme.number(), topic, self.op.clone()]);
        ctx.op(r.is_ok());
        ensure!(
            r.is_ok() == expect,
            "C15/allow_key/outcome-differs-from-documentation",
            "{what}: allow_key(issuer {i}, {}, topic {topic}) ok = {}, documented: {} (issuer trusted for topic: {}, already allowed: {}) {:?}",
            scheme.name(),
            r.is_ok(),
            expect,
            self.m.trusted(i, topic),
            self.m.allowed.contains(&(i, scheme, topic)),
            r.err()
        );
        if r.is_ok() {
            self.m.allowed.insert((i, scheme, topic));
        }
        Ok(())
    }
    fn remove_key(&mut self, i: usize, scheme: Scheme, topic: u32, ctx: &mut Ctx, what: &str) -> R {
        let e = self.e.clone();
        let pk = self.pubkey(i as u8, scheme);
        let expect = self.m.allowed.contains(&(i, scheme, topic));
        let r = self.admin(&self.issuers[i], "remove_key", args![&e; bytes(&e, &pk), self.cti.clone(), scheme.number(), topic, self.op.clone()]);
        ctx.op(r.is_ok());
        ensure!(
            r.is_ok() == expect,
            "C15/remove_key/outcome-differs-from-documentation",
            "{what}: remove_key(issuer {i}, {}, topic {topic}) ok = {}, documented: {} {:?}",
            scheme.name(),
            r.is_ok(),
            expect,
            r.err()
        );
        if r.is_ok() {
            self.m.allowed.remove(&(i, scheme, topic));
        }
        Ok(())
    }

    // ---- claims

    /// Build the claim for slot (ident, issuer, topic): sign (possibly something else), then tamper.
    fn build(&mut self, c: &ClaimOp, ident: usize, issuer: usize, topic: u32, scheme: Scheme) -> Rec {
        self.build_with(c, ident, issuer, topic, scheme, None)
    }
    /// `data`: sign these claim data instead of fresh ones (re-issuing an existing claim under the current nonce)
    fn build_with(&mut self, c: &ClaimOp, ident: usize, issuer: usize, topic: u32, scheme: Scheme, data: Option<Vec<u8>>) -> Rec {
        let now = self.now();
        // ttl 255 = valid for years (so that the claim outlives a LongQuiet period)
        let valid_until = if c.ttl == 255 { now + 100_000_000 } else { now + c.ttl as u64 * 5 + c.off as u64 };
        let data = data.unwrap_or_else(|| encode_data(now.saturating_sub(100), valid_until, &c.payload));
        let cur_nonce = self.m.nonce_of(issuer, ident, topic);
        let mut s = Signed { net_ok: true, issuer, ident, topic, nonce: cur_nonce, data: data.clone(), key_owner: issuer as u8, key_scheme: scheme };
        let mut net = self.net;
        match &c.defect {
            Defect::OtherIdentity => s.ident = (ident + 1) % N_IDENT,
            Defect::OtherTopic(k) => {
                let mut t2 = topic_number(*k);
                if t2 == topic {
                    t2 = topic + 100;
                }
                s.topic = t2;
            }
            Defect::OtherIssuer(k) => {
                let mut i2 = *k as usize % N_ISS;
                if i2 == issuer {
                    i2 = (issuer + 1) % N_ISS;
                }
                s.issuer = i2;
            }
            Defect::OtherNetwork(b) => {
                net[*b as usize % 32] ^= 0x01;
                s.net_ok = false;
            }
            Defect::WrongNonce => s.nonce = if cur_nonce > 0 { cur_nonce - 1 } else { cur_nonce + 1 },
            Defect::KeyNotAllowed { stranger } => {
                // another key of this issuer that is allowed for some OTHER topic but not for this one
                let alt = SCHEMES
                    .iter()
                    .copied()
                    .find(|sc| !self.m.allowed.contains(&(issuer, *sc, topic)) && self.m.allowed.iter().any(|(i, s2, _)| *i == issuer && s2 == sc));
                match (stranger, alt) {
                    (false, Some(sc)) => s.key_scheme = sc,
                    _ => s.key_owner = STRANGER,
                }
            }
            _ => {}
        }
        let msg = claim_message(&net, &self.issuers[s.issuer], &self.idents[s.ident], s.topic, s.nonce, &s.data);
        let (owner, ksch) = (s.key_owner, s.key_scheme);
        let mut sig_data = self.key(owner, ksch).sign(&msg);
        let mut r = Rec { f_issuer: issuer, f_topic: topic, scheme_no: ksch.number(), sig_data: vec![], data, signed: s, sig_intact: true, defect: c.defect.name() };
        match &c.defect {
            Defect::SigBitFlip(sel) => {
                let bit = pick(*sel, sig_data.len() * 8);
                sig_data[bit / 8] ^= 1 << (bit % 8);
                r.sig_intact = false;
            }
            Defect::DataByteFlip(sel, x) => {
                let k = pick(*sel, r.data.len());
                r.data[k] ^= *x;
            }
            Defect::WrongScheme(k) => {
                let others: Vec<u32> = SCHEMES.iter().filter(|sc| **sc != ksch).map(|sc| sc.number()).collect();
                r.scheme_no = match k % 4 {
                    0 => others[0],
                    1 => others[1],
                    2 => 200,
                    _ => 0,
                };
            }
            Defect::Truncated(sel) => {
                // mostly by one byte, otherwise anywhere
                let n = if sel & 1 == 0 { sig_data.len() - 1 } else { pick(*sel, sig_data.len()) };
                sig_data.truncate(n);
                r.sig_intact = false;
            }
            Defect::Extended => {
                sig_data.push(0);
                r.sig_intact = false;
            }
            Defect::SlotIssuer(k) => {
                let mut i2 = *k as usize % N_ISS;
                if i2 == issuer {
                    i2 = (issuer + 1) % N_ISS;
                }
                r.f_issuer = i2;
            }
            Defect::SlotTopic(k) => {
                let mut t2 = topic_number(*k);
                if t2 == topic {
                    t2 = topic + 100;
                }
                r.f_topic = t2;
            }
            _ => {}
        }
        r.sig_data = sig_data;
        r
    }

    /// `is_claim_valid` at `issuer` for (ident, topic): must succeed iff the model says valid
    fn probe(&self, r: &Rec, issuer: usize, ident: usize, topic: u32, ctx: &mut Ctx, what: &str) -> R {
        let e = &self.e;
        envx::no_auth(e);
        let res = call(
            e,
            &self.issuers[issuer],
            "is_claim_valid",
            args![e; self.idents[ident].clone(), topic, r.scheme_no, bytes(e, &r.sig_data), bytes(e, &r.data)],
        );
        ctx.op(res.is_ok());
        let why = self.m.why_invalid(r, issuer, ident, topic, self.now());
        match (&res, why) {
            (Ok(_), Some((cls, w))) => bail!(
                format!("C15/is_claim_valid/confirmed-invalid-claim:{cls}"),
                "{what}: issuer {issuer} confirmed a claim for identity {ident}, topic {topic} although: {w} (construction: {}, signed {:?})",
                r.defect,
                r.signed
            ),
            (Err(er), None) => bail!(
                "C15/is_claim_valid/rejected-valid-claim",
                "{what}: issuer {issuer} rejected a claim for identity {ident}, topic {topic} that is valid by construction ({}): {er} (signed {:?})",
                r.defect,
                r.signed
            ),
            _ => {}
        }
        Ok(())
    }

    fn claim_struct(&self, r: &Rec) -> Claim {
        let e = &self.e;
        Claim {
            topic: r.f_topic,
            scheme: r.scheme_no,
            issuer: self.issuers[r.f_issuer].clone(),
            signature: bytes(e, &r.sig_data),
            data: bytes(e, &r.data),
            uri: SString::from_str(e, "uri"),
        }
    }

    /// place a record into slot (ident, issuer, topic) of the identity's storage and read it back through the entry points
    fn inject(&mut self, r: &Rec, ident: usize, issuer: usize, topic: u32, what: &str) -> R {
        let e = self.e.clone();
        let claim = self.claim_struct(r);
        let id = generate_claim_id(&e, &self.issuers[issuer], topic);
        e.as_contract(&self.idents[ident], || {
            let st = e.storage().persistent();
            st.set(&ClaimsStorageKey::Claim(id.clone()), &claim);
            let k = ClaimsStorageKey::ClaimsByTopic(topic);
            let mut ids: SVec<BytesN<32>> = st.get(&k).unwrap_or_else(|| SVec::new(&e));
            if !ids.contains(&id) {
                ids.push_back(id.clone());
                st.set(&k, &ids);
            }
        });
        let ids: SVec<BytesN<32>> = envx::call_t(&e, &self.idents[ident], "get_claim_ids_by_topic", args![&e; topic])
            .map_err(|er| violation("C15/harness/inject-readback", format!("{what}: get_claim_ids_by_topic failed: {er}")))?;
        let back: Claim = envx::call_t(&e, &self.idents[ident], "get_claim", args![&e; id.clone()])
            .map_err(|er| violation("C15/harness/inject-readback", format!("{what}: get_claim failed: {er}")))?;
        ensure!(ids.contains(&id) && back == claim, "C15/harness/inject-readback", "{what}: the injected record is not what the identity's entry points return");
        self.m.recs.insert((ident, issuer, topic), r.clone());
        Ok(())
    }

    /// present a claim to the issuer and to the identity's `add_claim`
    fn present(&mut self, r: Rec, ident: usize, issuer: usize, topic: u32, inject: bool, ctx: &mut Ctx, what: &str) -> R {
        let e = self.e.clone();
        ctx.class(&format!("claim:{}", r.defect));
        ctx.class(&format!("scheme:{}", r.signed.key_scheme.name()));
        let slot_mismatch = r.f_issuer != issuer || r.f_topic != topic;
        self.probe(&r, issuer, ident, topic, ctx, what)?;
        if slot_mismatch {
            // add_claim derives the slot from the fields, so such a record can only be placed directly
            ctx.class("injected");
            return self.inject(&r, ident, issuer, topic, what);
        }
        let why = self.m.why_invalid(&r, issuer, ident, topic, self.now());
        envx::no_auth(&e);
        let res = call(
            &e,
            &self.idents[ident],
            "add_claim",
            args![&e; topic, r.scheme_no, self.issuers[issuer].clone(), bytes(&e, &r.sig_data), bytes(&e, &r.data), SString::from_str(&e, "uri")],
        );
        ctx.op(res.is_ok());
        match (&res, why) {
            (Ok(_), Some((cls, w))) => bail!(
                format!("C15/add_claim/accepted-invalid-claim:{cls}"),
                "{what}: add_claim stored a claim of issuer {issuer} for identity {ident}, topic {topic} although: {w} (construction: {})",
                r.defect
            ),
            (Err(er), None) => bail!(
                "C15/add_claim/rejected-valid-claim",
                "{what}: add_claim refused a claim of issuer {issuer} for identity {ident}, topic {topic} that is valid by construction: {er}"
            ),
            (Ok(_), None) => {
                ctx.class("add_claim_accepted");
                self.m.recs.insert((ident, issuer, topic), r);
            }
            (Err(_), Some(_)) => {
                ctx.class("add_claim_refused");
                if inject {
                    ctx.class("injected");
                    self.inject(&r, ident, issuer, topic, what)?;
                }
            }
        }
        Ok(())
    }

    fn held(&self, sel: u16) -> Option<((usize, usize, u32), Rec)> {
        if self.m.recs.is_empty() {
            return None;
        }
        let k = pick(sel, self.m.recs.len());
        self.m.recs.iter().nth(k).map(|(k, v)| (*k, v.clone()))
    }

    /// like `held`, but among the records whose claim is currently revoked when there is one
    fn held_revoked_first(&self, sel: u16) -> Option<((usize, usize, u32), Rec)> {
        let rev: Vec<_> = self
            .m
            .recs
            .iter()
            .filter(|((ident, issuer, topic), r)| self.m.revoked.get(&(*issuer, *ident, *topic, r.data.clone())).copied().unwrap_or(false))
            .collect();
        if rev.is_empty() {
            return self.held(sel);
        }
        let (k, v) = rev[pick(sel, rev.len())];
        Some((*k, v.clone()))
    }

    // ---- the oracle after every step

    fn check_all(&self, ctx: &mut Ctx, what: &str, st: &mut Stats) -> R {
        let e = &self.e;
        let now = self.now();
        // 1. every held record against its slot issuer
        for ((ident, issuer, topic), r) in &self.m.recs {
            self.probe(r, *issuer, *ident, *topic, ctx, what)?;
        }
        // 2. verify_identity for every account
        for a in 0..N_ACCT {
            envx::no_auth(e);
            let res = call(e, &self.verifier, "verify_identity", args![e; self.accts[a].clone()]);
            ctx.op(res.is_ok());
            let (strict, lenient) = self.m.expect_verify(a, now);
            if res.is_ok() {
                ctx.class("verify_ok");
                st.verify_ok = true;
            } else {
                ctx.class("verify_refused");
                if st.was_ok[a] {
                    ctx.class("verify_ok_then_refused");
                    st.flipped = true;
                }
            }
            st.was_ok[a] = res.is_ok();
            if res.is_ok() == strict {
                self.classify(a, now, ctx, st);
                continue;
            }
            let ident = self.m.irs.get(&a).copied();
            if res.is_ok() && lenient {
                // the only unsatisfied required topics are topics nobody is trusted for
                let empty: Vec<u32> = self.m.topics.iter().copied().filter(|t| self.m.trusted_for(*t).is_empty()).collect();
                ctx.class("topic_without_issuer_passed");
                if st.deferred.is_none() {
                    st.deferred = Some(violation(
                        "C15/verify_identity/topic-without-issuer-passes",
                        format!(
                            "{what}: verify_identity(account {a}) succeeded although the required topic(s) {:?} have no trusted issuer, so identity {:?} holds no claim for them (required {:?}, trusted {:?})",
                            empty, ident, self.m.topics, self.m.issuers
                        ),
                    ));
                }
                continue;
            }
            if res.is_ok() {
                let mut lines = vec![];
                for &t in &self.m.topics {
                    let iss = self.m.trusted_for(t);
                    if let Some(id) = ident {
                        if iss.iter().any(|&i| self.m.counts(id, i, t, now)) {
                            continue;
                        }
                        let why: Vec<String> = iss
                            .iter()
                            .map(|&i| match self.m.recs.get(&(id, i, t)) {
                                None => format!("issuer {i}: no claim"),
                                Some(r) if r.f_issuer != i || r.f_topic != t => format!("issuer {i}: record names issuer {} topic {}", r.f_issuer, r.f_topic),
                                Some(r) => format!("issuer {i}: {} [{}]", self.m.why_invalid(r, i, id, t, now).map(|x| x.1).unwrap_or("?"), r.defect),
                            })
                            .collect();
                        lines.push(format!("topic {t}: {}", why.join("; ")));
                    }
                }
                bail!(
                    "C15/verify_identity/passes-without-valid-claim",
                    "{what}: verify_identity(account {a}) succeeded; registered identity {:?}; unsatisfied required topics: {}",
                    ident,
                    if lines.is_empty() { "account has no registered identity".to_string() } else { lines.join(" | ") }
                );
            } else {
                bail!(
                    "C15/verify_identity/refused-with-valid-claims",
                    "{what}: verify_identity(account {a}) failed ({:?}) although identity {:?} holds a valid claim of a currently trusted issuer for every required topic {:?} (trusted {:?})",
                    res.err(),
                    ident,
                    self.m.topics,
                    self.m.issuers
                );
            }
        }
        Ok(())
    }

    /// coverage classes of one verification (no assertions)
    fn classify(&self, a: usize, now: u64, ctx: &mut Ctx, st: &mut Stats) {
        let Some(&ident) = self.m.irs.get(&a) else {
            ctx.class("verify_unregistered_account");
            return;
        };
        let e = &self.e;
        if self.m.topics.len() >= 2 {
            st.two_topics = true;
        }
        for &t in &self.m.topics {
            let iss = self.m.trusted_for(t);
            match iss.len() {
                0 => {
                    ctx.class("required_topic_without_issuer");
                    st.topic_without_issuer = true;
                }
                1 => ctx.class("required_topic_one_issuer"),
                _ => ctx.class("required_topic_several_issuers"),
            }
            if iss.len() >= 2 {
                // order in which the registry lists them (class only)
                let order: Vec<usize> = envx::call_t::<SVec<Address>>(e, &self.cti, "get_claim_topic_issuers", args![e; t])
                    .map(|v| v.iter().filter_map(|a| self.issuers.iter().position(|x| *x == a)).collect())
                    .unwrap_or_default();
                let held: Vec<bool> = order.iter().filter(|i| self.m.recs.contains_key(&(ident, **i, t))).map(|i| self.m.counts(ident, *i, t, now)).collect();
                if held.len() >= 2 && held.iter().any(|v| *v) && held.iter().any(|v| !*v) {
                    st.mixed = true;
                    if held[0] {
                        ctx.class("several_issuers_first_valid_later_invalid");
                    } else {
                        ctx.class("several_issuers_first_invalid_later_valid");
                    }
                }
            }
            // a held record of an issuer that is no longer trusted for the topic
            for i in 0..N_ISS {
                if !iss.contains(&i) && self.m.recs.contains_key(&(ident, i, t)) {
                    ctx.class("claim_of_delisted_issuer_held");
                    st.delisted = true;
                }
            }
        }
    }
}

#[derive(Default)]
struct Stats {
    deferred: Option<Violation>,
    was_ok: [bool; N_ACCT],
    verify_ok: bool,
    flipped: bool,
    two_topics: bool,
    mixed: bool,
    delisted: bool,
    topic_without_issuer: bool,
    defects: BTreeSet<&'static str>,
}

// ------------------------------------------------------------------ interpreter

pub fn run(case: &Case, ctx: &mut Ctx) -> R {
    let e = envx::new_env(case.seq, envx::BIG_TTL);
    let net = sha256(&[b"verif-c15-net", &case.seed.to_le_bytes()]);
    e.ledger().with_mut(|li| li.network_id = net);
    let op = envx::actor(&e);
    let cti = e.register(Cti, ());
    let irs = e.register(Irs, ());
    let verifier = e.register(IdVerifier, ());
    let issuers: Vec<Address> = (0..N_ISS).map(|_| e.register(Issuer, ())).collect();
    let idents: Vec<Address> = (0..N_IDENT).map(|_| e.register(Ident, ())).collect();
    let accts = envx::actors(&e, N_ACCT);
    let mut w = World { e: e.clone(), op, cti, irs, verifier, issuers, idents, accts, net, seed: case.seed, keys: BTreeMap::new(), m: Model::default() };
    let mut st = Stats::default();

    // ---- set-up (not probes): wiring, identities, initial registry, registry history, initial keys
    let setup = |r: Result<Val, String>, what: &str| -> R {
        match r {
            Ok(_) => Ok(()),
            Err(er) => Err(violation("C15/setup/failed", format!("{what}: {er}"))),
        }
    };
    setup(w.admin(&w.verifier, "set_claim_topics_and_issuers", args![&e; w.cti.clone(), w.op.clone()]), "set_claim_topics_and_issuers")?;
    setup(w.admin(&w.verifier, "set_identity_registry_storage", args![&e; w.irs.clone(), w.op.clone()]), "set_identity_registry_storage")?;
    for a in 0..N_IDENT {
        irs_op(&mut w, &IrsOp::Add(a as u8, a as u8), ctx, "setup add_identity")?;
    }
    for k in 0..4u8 {
        if case.topics0 & (1 << k) != 0 {
            w.reg_op(&RegOp::AddTopic(k), ctx, "setup")?;
        }
    }
    for i in 0..N_ISS {
        if !topics_of_mask(case.issuers0[i]).iter().any(|t| w.m.topics.contains(t)) {
            continue;
        }
        w.reg_op(&RegOp::AddIssuer(i as u8, case.issuers0[i], true), ctx, "setup")?;
    }
    for (k, r) in case.reg.iter().enumerate() {
        w.reg_op(r, ctx, &format!("registry history {k}"))?;
    }
    for i in 0..N_ISS {
        for (k, t) in TOPICS.iter().enumerate() {
            for s in SCHEMES {
                let bit = (i * 4 + k) * 3 + s.idx();
                if case.keys & (1u64 << bit) != 0 && w.m.trusted(i, *t) {
                    w.allow_key(i, s, *t, ctx, "setup allow_key")?;
                }
            }
        }
    }
    w.check_all(ctx, "after set-up", &mut st)?;

    // ---- history
    for (step, op) in case.ops.iter().enumerate() {
        let what = format!("step {step} {:?}", op);
        let what = what.as_str();
        match op {
            Op::Claim(c) => {
                let ident = c.ident as usize % N_IDENT;
                let pairs = w.m.trusted_pairs();
                let (issuer, topic) = match &c.target {
                    Target::Trusted(sel) if !pairs.is_empty() => pairs[pick(*sel, pairs.len())],
                    Target::Trusted(sel) => (pick(*sel, N_ISS), TOPICS[(*sel as usize) & 3]),
                    Target::Raw(i, t) => (*i as usize % N_ISS, TOPICS[*t as usize % 4]),
                };
                let allowed: Vec<Scheme> = SCHEMES.iter().copied().filter(|s| w.m.allowed.contains(&(issuer, *s, topic))).collect();
                let scheme = match &c.key {
                    KeySel::Allowed(sel) if !allowed.is_empty() => allowed[pick(*sel, allowed.len())],
                    KeySel::Allowed(sel) => SCHEMES[pick(*sel, 3)],
                    KeySel::Raw(s) => *s,
                };
                if c.defect == Defect::PreRevoked {
                    // the claim identifier (issuer, identity, topic, data) is revoked before anybody sees the claim
                    let mut c0 = c.clone();
                    c0.defect = Defect::None;
                    let r0 = w.build(&c0, ident, issuer, topic, scheme);
                    revoke(&mut w, issuer, ident, topic, &r0.data, true, ctx, what)?;
                }
                let mut r = w.build(c, ident, issuer, topic, scheme);
                if c.defect != Defect::None {
                    st.defects.insert(r.defect);
                } else if c.ttl == 0 && c.off == 0 {
                    r.defect = "expired_at_creation";
                    st.defects.insert(r.defect);
                }
                w.present(r, ident, issuer, topic, c.inject, ctx, what)?;
            }
            Op::Cover { ident, sel, ttl } => {
                let ident = *ident as usize % N_IDENT;
                let now = w.now();
                for t in w.m.topics.clone() {
                    if w.m.trusted_for(t).iter().any(|&i| w.m.counts(ident, i, t, now)) {
                        continue;
                    }
                    let cands: Vec<(usize, Scheme)> =
                        w.m.allowed.iter().filter(|(i, _, t2)| *t2 == t && w.m.trusted(*i, t)).map(|(i, s, _)| (*i, *s)).collect();
                    if cands.is_empty() {
                        ctx.class("cover_impossible_for_topic");
                        continue;
                    }
                    let (issuer, scheme) = cands[pick(*sel, cands.len())];
                    let c = ClaimOp {
                        ident: ident as u8,
                        target: Target::Raw(0, 0),
                        key: KeySel::Raw(scheme),
                        ttl: *ttl,
                        off: 0,
                        payload: vec![t as u8],
                        defect: Defect::None,
                        inject: false,
                    };
                    let r = w.build(&c, ident, issuer, t, scheme);
                    w.present(r, ident, issuer, t, false, ctx, what)?;
                }
            }
            Op::DropKey(sel) => match w.held(*sel) {
                Some(((_, issuer, topic), r)) if r.signed.key_owner as usize == issuer && w.m.allowed.contains(&(issuer, r.signed.key_scheme, topic)) => {
                    w.remove_key(issuer, r.signed.key_scheme, topic, ctx, what)?;
                    ctx.class("after:key_removed");
                    st.defects.insert("key_removed_afterwards");
                }
                _ => ctx.class("skipped_op"),
            },
            Op::Revoke(sel, flag) => match if *flag { w.held(*sel) } else { w.held_revoked_first(*sel) } {
                Some(((ident, issuer, topic), r)) => {
                    revoke(&mut w, issuer, ident, topic, &r.data, *flag, ctx, what)?;
                    if *flag {
                        ctx.class("after:revoked");
                        st.defects.insert("revoked_afterwards");
                    } else {
                        ctx.class("after:unrevoked");
                    }
                }
                None => ctx.class("skipped_op"),
            },
            Op::Bump(sel) => match w.held(*sel) {
                Some(((ident, issuer, topic), _)) => {
                    bump_nonce(&mut w, issuer, ident, topic, ctx, what)?;
                    ctx.class("after:nonce_bumped");
                    st.defects.insert("nonce_bumped_afterwards");
                }
                None => ctx.class("skipped_op"),
            },
            Op::Resign(sel, bump) => match w.held_revoked_first(*sel) {
                Some(((ident, issuer, topic), r)) => {
                    if *bump {
                        bump_nonce(&mut w, issuer, ident, topic, ctx, what)?;
                    }
                    let allowed: Vec<Scheme> = SCHEMES.iter().copied().filter(|s| w.m.allowed.contains(&(issuer, *s, topic))).collect();
                    let scheme = if allowed.contains(&r.signed.key_scheme) || allowed.is_empty() { r.signed.key_scheme } else { allowed[0] };
                    let c = ClaimOp {
                        ident: ident as u8,
                        target: Target::Raw(0, 0),
                        key: KeySel::Raw(scheme),
                        ttl: 0,
                        off: 0,
                        payload: vec![],
                        defect: Defect::None,
                        inject: true,
                    };
                    let mut r2 = w.build_with(&c, ident, issuer, topic, scheme, Some(r.data.clone()));
                    r2.defect = "resigned_same_data";
                    if w.m.revoked.get(&(issuer, ident, topic, r.data.clone())).copied().unwrap_or(false) {
                        ctx.class("resigned_revoked_claim");
                    }
                    w.present(r2, ident, issuer, topic, true, ctx, what)?;
                }
                None => ctx.class("skipped_op"),
            },
            Op::AdvanceToExpiry(sel, d) => match w.held(*sel).and_then(|(_, r)| valid_until_of(&r.data)) {
                Some(vu) => {
                    // first ledger whose timestamp is >= valid_until, plus d
                    let base = 1_700_000_000u64;
                    let seq_exp = (vu.saturating_sub(base) + 4) / 5;
                    let target = (seq_exp as i64 + *d as i64).clamp(0, u32::MAX as i64 - 10) as u32;
                    let cur = envx::seq(&e);
                    if target > cur && target - cur <= 400 {
                        envx::set_seq(&e, target);
                        ctx.class(match d {
                            -1 => "advance_to_expiry_minus_1",
                            0 => "advance_to_expiry",
                            _ => "advance_to_expiry_plus_1",
                        });
                        if *d >= 0 {
                            st.defects.insert("expired_afterwards");
                        }
                    } else {
                        ctx.class("skipped_op");
                    }
                }
                None => ctx.class("skipped_op"),
            },
            Op::Delist(sel, how) => match w.held(*sel) {
                Some(((_, issuer, topic), _)) if w.m.trusted(issuer, topic) => {
                    let rest: Vec<u32> = w.m.issuers[&issuer].iter().copied().filter(|t| *t != topic).collect();
                    let rop = match how % 3 {
                        1 if !rest.is_empty() => {
                            let mask = TOPICS.iter().enumerate().filter(|(_, t)| rest.contains(t)).fold(0u8, |m, (k, _)| m | (1 << k));
                            RegOp::UpdateIssuer(issuer as u8, mask, false)
                        }
                        2 => RegOp::RemoveTopic(TOPICS.iter().position(|t| *t == topic).unwrap_or(0) as u8),
                        _ => RegOp::RemoveIssuer(issuer as u8),
                    };
                    w.reg_op(&rop, ctx, what)?;
                    ctx.class("after:issuer_delisted");
                    st.defects.insert("issuer_delisted_afterwards");
                }
                _ => ctx.class("skipped_op"),
            },
            Op::RemoveClaim(sel) => match w.held(*sel) {
                // `remove_claim` un-indexes by the record's own topic field: for a placed record whose topic field
                // differs from its slot that would leave a dangling index entry no API call can produce; skip those
                Some(((ident, issuer, topic), r)) if r.f_topic == topic => {
                    let id = generate_claim_id(&e, &w.issuers[issuer], topic);
                    envx::no_auth(&e);
                    let r = call(&e, &w.idents[ident], "remove_claim", args![&e; id]);
                    ctx.op(r.is_ok());
                    ensure!(r.is_ok(), "C15/remove_claim/failed", "{what}: removing a held claim failed: {:?}", r.err());
                    w.m.recs.remove(&(ident, issuer, topic));
                    ctx.class("claim_removed");
                }
                _ => ctx.class("skipped_op"),
            },
            Op::Reg(r) => w.reg_op(r, ctx, what)?,
            Op::AllowKey { issuer, scheme, topic } => w.allow_key(*issuer as usize % N_ISS, *scheme, TOPICS[*topic as usize % 4], ctx, what)?,
            Op::RemoveKey { issuer, scheme, topic } => w.remove_key(*issuer as usize % N_ISS, *scheme, TOPICS[*topic as usize % 4], ctx, what)?,
            Op::Advance(k) => envx::advance(&e, *k as u32),
            Op::LongQuiet => {
                ctx.class("long_quiet_period");
                envx::advance(&e, 600_000)
            }
            Op::Irs(o) => irs_op(&mut w, o, ctx, what)?,
            Op::CrossProbe(sel, cross) => match w.held(*sel) {
                Some(((ident, issuer, topic), r)) => {
                    let (i2, id2, t2) = match cross {
                        Cross::Topic(k) => (issuer, ident, if topic_number(*k) == topic { topic + 100 } else { topic_number(*k) }),
                        Cross::Ident => (issuer, (ident + 1) % N_IDENT, topic),
                        Cross::Issuer(k) => (if *k as usize % N_ISS == issuer { (issuer + 1) % N_ISS } else { *k as usize % N_ISS }, ident, topic),
                    };
                    ctx.class("cross_probe");
                    w.probe(&r, i2, id2, t2, ctx, what)?;
                }
                None => ctx.class("skipped_op"),
            },
        }
        w.check_all(ctx, what, &mut st)?;
    }

    for d in &st.defects {
        ctx.class(&format!("case_with:{d}"));
    }
    if st.topic_without_issuer {
        ctx.class("case_with:required_topic_without_issuer");
    }
    if st.delisted {
        ctx.class("case_with:claim_of_delisted_issuer");
    }
    if st.verify_ok {
        ctx.class("case_with:verify_ok");
    }
    if st.flipped {
        ctx.class("case_with:verify_ok_then_refused");
    }
    if st.two_topics && st.mixed && !st.defects.is_empty() {
        ctx.nontrivial = true;
        ctx.class("nontrivial");
    }
    match st.deferred {
        Some(v) => Err(v),
        None => Ok(()),
    }
}

fn bump_nonce(w: &mut World, issuer: usize, ident: usize, topic: u32, ctx: &mut Ctx, what: &str) -> R {
    let e = w.e.clone();
    let r = w.admin(&w.issuers[issuer], "invalidate_claim_signatures", args![&e; w.idents[ident].clone(), topic, w.op.clone()]);
    ctx.op(r.is_ok());
    ensure!(r.is_ok(), "C15/invalidate_claim_signatures/failed", "{what}: {:?}", r.err());
    *w.m.nonce.entry((issuer, ident, topic)).or_insert(0) += 1;
    Ok(())
}

fn revoke(w: &mut World, issuer: usize, ident: usize, topic: u32, data: &[u8], flag: bool, ctx: &mut Ctx, what: &str) -> R {
    let e = w.e.clone();
    let r = w.admin(&w.issuers[issuer], "set_claim_revoked", args![&e; w.idents[ident].clone(), topic, bytes(&e, data), flag, w.op.clone()]);
    ctx.op(r.is_ok());
    ensure!(r.is_ok(), "C15/set_claim_revoked/failed", "{what}: {:?}", r.err());
    w.m.revoked.insert((issuer, ident, topic, data.to_vec()), flag);
    Ok(())
}

fn irs_op(w: &mut World, op: &IrsOp, ctx: &mut Ctx, what: &str) -> R {
    let e = w.e.clone();
    let (r, expect) = match op {
        IrsOp::Add(a, i) => {
            let (a, i) = (*a as usize % N_ACCT, *i as usize % N_IDENT);
            let cd = CountryData { country: CountryRelation::Individual(IndividualCountryRelation::Residence(840)), metadata: None };
            let expect = !w.m.irs.contains_key(&a);
            let r = w.admin(&w.irs, "add_identity", args![&e; w.accts[a].clone(), w.idents[i].clone(), SVec::from_array(&e, [cd]), w.op.clone()]);
            if r.is_ok() && expect {
                w.m.irs.insert(a, i);
            }
            (r, expect)
        }
        IrsOp::Remove(a) => {
            let a = *a as usize % N_ACCT;
            let expect = w.m.irs.contains_key(&a);
            let r = w.admin(&w.irs, "remove_identity", args![&e; w.accts[a].clone(), w.op.clone()]);
            if r.is_ok() && expect {
                w.m.irs.remove(&a);
                ctx.class("irs_identity_removed");
            }
            (r, expect)
        }
        IrsOp::Modify(a, i) => {
            let (a, i) = (*a as usize % N_ACCT, *i as usize % N_IDENT);
            let expect = w.m.irs.contains_key(&a);
            let r = w.admin(&w.irs, "modify_identity", args![&e; w.accts[a].clone(), w.idents[i].clone(), w.op.clone()]);
            if r.is_ok() && expect {
                w.m.irs.insert(a, i);
                ctx.class("irs_identity_modified");
            }
            (r, expect)
        }
    };
    ctx.op(r.is_ok());
    ensure!(
        r.is_ok() == expect,
        "C15/identity_registry/outcome-differs-from-documentation",
        "{what}: {:?} ok = {}, documented: {} {:?}",
        op,
        r.is_ok(),
        expect,
        r.err()
    );
    // the registry's own answer must be the model's
    for a in 0..N_ACCT {
        let got = envx::call_t::<Address>(&e, &w.irs, "stored_identity", args![&e; w.accts[a].clone()]).ok();
        let want = w.m.irs.get(&a).map(|i| w.idents[*i].clone());
        ensure!(got == want, "C15/identity_registry/state-differs-from-model", "{what}: stored_identity(account {a}) = {:?}, model {:?}", got, want);
    }
    Ok(())
}

pub fn property() -> Property {
    let mut p = Property {
        id: "C15",
        rule: "case = key seed, initial required topics (universe {1,2,3,7}) and trusted issuers (3 claim-issuer contracts, one key per scheme Ed25519/Secp256k1/Secp256r1), \
               a registry history (add/remove topic, add/remove issuer, update issuer topics; <= 15 registry operations in total), an initial key-allowance mask, and a history of <= 22 (thorough 40) \
               operations: claims for (identity, issuer, topic) genuinely signed or with ONE defect (sig bit flip, data byte flip, signed for other identity/topic/issuer/network/nonce, key not allowed, \
               wrong scheme number, truncated/extended sig_data, revoked before add, expired at creation, record whose issuer/topic field differs from its slot), presented to add_claim and placed into the \
               identity's storage when refused; after-acceptance defects aimed at held records (key removed, revoked/unrevoked, nonce bump, same data re-signed under the current nonce, ledger time to expiry-1/expiry/expiry+1, issuer de-listed by \
               remove/update/remove-topic), Cover (genuine claims for every uncovered required topic), raw registry/key/IRS operations, cross probes. After every step every held record is shown to its issuer and verify_identity runs for 3 accounts (one unregistered). \
               non-trivial = some verification with >= 2 required topics AND a topic with >= 2 trusted issuers that both hold a record for the identity, one valid and one invalid, AND >= 1 defect class in the case; \
               distinct = distinct serialised case",
        subs: vec![
            gen_sub::<Case>("identity", 800, 12000, strategy, run),
            // the documented claim-data expiration codec (encode / decode / is_claim_expired) against its stated layout
            gen_sub::<super::c15b::Case>("claim-data-codec", 4000, 60000, super::c15b::strategy, super::c15b::run),
        ],
        // <= 1/10 of the minimum measured over quick seeds 0..3 / of one thorough run
        floors: vec![
            ("nontrivial", 20, 400),
            ("verify_ok", 250, 8000),
            ("verify_ok_then_refused", 40, 1200),
            ("case_with:required_topic_without_issuer", 15, 300),
            ("case_with:claim_of_delisted_issuer", 15, 400),
            ("several_issuers_first_invalid_later_valid", 50, 2500),
            ("several_issuers_first_valid_later_invalid", 40, 2500),
            ("add_claim_accepted", 200, 5000),
            ("add_claim_refused", 120, 4000),
            ("injected", 120, 4000),
            ("claim:sig_bit_flip", 8, 250),
            ("claim:data_byte_flip", 8, 250),
            ("claim:signed_other_identity", 8, 250),
            ("claim:signed_other_topic", 8, 250),
            ("claim:signed_other_issuer", 8, 250),
            ("claim:signed_other_network", 8, 250),
            ("claim:signed_wrong_nonce", 8, 250),
            ("claim:key_not_allowed", 12, 350),
            ("claim:wrong_scheme_number", 8, 250),
            ("claim:truncated_sig_data", 8, 250),
            ("claim:revoked_before_add", 8, 250),
            ("claim:expired_at_creation", 4, 120),
            ("claim:slot_issuer_mismatch", 8, 250),
            ("claim:slot_topic_mismatch", 8, 250),
            ("after:key_removed", 20, 600),
            ("after:revoked", 20, 600),
            ("after:nonce_bumped", 25, 800),
            ("after:issuer_delisted", 20, 600),
            ("advance_to_expiry", 10, 300),
            ("advance_to_expiry_minus_1", 10, 250),
            ("resigned_revoked_claim", 5, 250),
            ("scheme:ed25519", 120, 3000),
            ("scheme:secp256k1", 120, 3000),
            ("scheme:secp256r1", 120, 3000),
        ],
        assumptions: vec![
            "Soroban native test host (storage, cross-contract calls with try_ rollback, ed25519/secp256k1/secp256r1/keccak/sha256 host functions) is trusted",
            "claims are signed with RustCrypto ed25519-dalek / p256 (low-S) / k256 (low-S, recoverable); valid(c) is known by construction, never by verifying a signature in the oracle",
            "claim data always carries the documented created_at/valid_until header (>= 16 bytes); ledger timestamp = 1_700_000_000 + 5 * sequence",
            "records that add_claim refuses are written into the identity's storage through a mirror of the (private) ClaimsStorageKey enum and read back through get_claim/get_claim_ids_by_topic",
            "authorization of the admin entry points is out of scope (mock_all_auths for them; verify_identity / is_claim_valid / add_claim run with no authorization entries)",
        ],
    };
    p.floors.extend(super::c15b::FLOORS.iter().cloned());
    p
}

//! C09 — not implemented yet.
use crate::engine::*;

pub fn property() -> Property {
    Property { id: "C09", rule: "", subs: vec![], floors: vec![], assumptions: vec![] }
}

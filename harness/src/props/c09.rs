//! C09 — A self-administered timelock controller cannot be driven around its own delay.
//!
//! Target: the example `TimelockController` constructed with `admin = None`, 1–2 proposers,
//! 0–2 executors, an external `Target` and a `Batcher` intermediary.  The controller's own
//! address authorizes admin-only calls through its `__check_auth`; the harness never mocks
//! that address: it attaches hand-built credentials whose signature is a generated
//! `Vec<OperationMeta>`.  Executors / proposers / cancellers are plain actors (accept-all
//! accounts), so "X authorized" == "an entry of X with exactly that invocation was attached".
//!
//! Reference model (written from the property statement and the example's module docs):
//! operation states, role membership, admin, minimum delay; a sequential model of what
//! `__check_auth` MAY accept (every context needs its own descriptor naming a Ready operation
//! with exactly (controller, fn, args, predecessor, salt), predecessor Done, executor with
//! role + exact entry whenever executors are configured) and MUST accept (additionally one
//! descriptor per context).  After every step the complete observable state is compared.
//!
//! Getter entry points (sub-check `getters`, and once at the end of every `history` case): the example's
//! public getters `get_min_delay`, `get_operation_ledger`, `get_operation_state`, `operation_exists`,
//! `is_operation_pending`, `is_operation_ready`, `is_operation_done` and `hash_operation` are invoked as
//! top-level contract invocations for every pool id and one never-scheduled id and compared with the
//! same model (C08: "the reported state of every operation id follows exactly Unset -> Waiting -> Ready ->
//! Done, or back to Unset by cancelling a pending operation"); see `getter_sweep`.

use crate::contracts::c08::target::Target;
use crate::contracts::c09::batcher::Batcher;
use crate::engine::*;
use crate::envx::{self, call, call_t, Inv};
use crate::examples::timelock_controller::contract::{OperationMeta, TimelockController};
use crate::gen::pick;
use proptest::prelude::*;
use serde::{Deserialize, Serialize};
use soroban_sdk::auth::{Context, ContractContext, ContractExecutable, CreateContractHostFnContext};
use soroban_sdk::xdr::{ScVal, SorobanAuthorizationEntry};
use soroban_sdk::{Address, BytesN, Env, IntoVal, Symbol, TryFromVal, Val, Vec as SVec};
use std::collections::BTreeSet;
use stellar_governance::timelock::{OperationState, TimelockError};

pub const POOL: usize = 4;
pub const N_ACT: usize = 6;
pub const ROLES: [&str; 4] = ["proposer", "executor", "canceller", "minter"];
const R_PROP: usize = 0;
const R_EXEC: usize = 1;
const R_CANC: usize = 2;

// ---------------------------------------------------------------- case data

#[derive(Clone, Debug, Serialize, Deserialize, PartialEq, Eq)]
pub enum AdminCall {
    UpdateDelay(u32),
    /// grant_role(actor, role, caller = controller)
    GrantRole { acct: u8, role: u8 },
    /// revoke_role(actor, role, caller = controller)
    RevokeRole { acct: u8, role: u8 },
    SetRoleAdmin { role: u8, admin_role: u8 },
    /// transfer_admin_role(actor, live_until = start ledger + 50 + live)
    TransferAdmin { to: u8, live: u16 },
    RenounceAdmin,
}

#[derive(Clone, Debug, Serialize, Deserialize)]
pub enum OpTarget {
    /// self-administration with the case's chosen admin call
    Chosen,
    /// self-administration: target = the controller
    Admin(AdminCall),
    /// external target: Target::bump(arg)
    External(u8),
}

#[derive(Clone, Debug, Serialize, Deserialize)]
pub enum PredSel {
    None,
    /// an earlier pool operation
    Pool(u16),
    Never,
}

#[derive(Clone, Debug, Serialize, Deserialize)]
pub struct OpSpec {
    pub target: OpTarget,
    pub pred: PredSel,
    pub salt: u8,
}

#[derive(Clone, Debug, Serialize, Deserialize)]
pub enum Sel {
    Idx(u16),
    /// operation named by the previous step
    Last,
    /// state-relative, resolved against the model (fallback `Idx`)
    Unset(u16),
    Pending(u16),
    Done(u16),
    /// k-th pending self-administration operation (predecessor satisfied if possible)
    AdminPending(u16),
    /// k-th pending external operation
    ExtPending(u16),
}

#[derive(Clone, Debug, Serialize, Deserialize)]
pub enum Delay {
    MinPlus(i8),
    K(u32),
    /// u32::MAX - current ledger + x: the ready ledger saturates (x >= 0) or just does not (x < 0)
    Huge(i8),
}

#[derive(Clone, Debug, Serialize, Deserialize, PartialEq, Eq)]
pub enum Auth {
    Exact,
    /// no entry of the required account
    Drop,
    /// another actor signs the same invocation
    Swap(u16),
    /// the required account signs the same function with one argument changed
    Tamper,
    /// Exact plus an unrelated entry of another actor
    Surplus(u16),
}

#[derive(Clone, Debug, Serialize, Deserialize)]
pub enum ExecSel {
    Absent,
    /// k-th current holder of the executor role (Absent when there is none)
    Holder(u16),
    /// k-th actor without the executor role
    NonHolder(u16),
}

#[derive(Clone, Debug, Serialize, Deserialize, PartialEq, Eq)]
pub enum EntryMode {
    Exact,
    Missing,
    /// entry names another salt / other call arguments / is rooted at `execute_op` instead of `__check_auth`
    TamperSalt,
    TamperArgs,
    WrongRoot,
    /// a different actor signs the exact invocation
    OtherSigner(u16),
}

#[derive(Clone, Debug, Serialize, Deserialize)]
pub enum Like {
    /// predecessor / salt of the operation the aligned context refers to
    Ctx,
    /// predecessor / salt of another pool operation
    Op(Sel),
}

#[derive(Clone, Debug, Serialize, Deserialize)]
pub struct MetaSpec {
    pub like: Like,
    pub pred_tweak: bool,
    pub salt_tweak: bool,
    pub executor: ExecSel,
    pub entry: EntryMode,
}

#[derive(Clone, Debug, Serialize, Deserialize)]
pub enum CallSel {
    /// the admin call of a pool operation (an external op falls back to pool op 0's call / update_delay(0))
    Op(Sel),
    /// the same with one argument changed (not what was scheduled)
    OpTweaked(Sel),
    Free(AdminCall),
}

#[derive(Clone, Debug, Serialize, Deserialize, PartialEq, Eq)]
pub enum Via {
    /// top-level call of the admin function
    Direct,
    /// through `Batcher::fwd` (one context)
    Forward,
    /// through `Batcher::run`: one controller entry covering [batch, call 1 (, call 2)]
    Batch,
}

#[derive(Clone, Debug, Serialize, Deserialize)]
pub enum CtxSpec {
    Op(Sel),
    OpTweaked(Sel),
    Free(AdminCall),
    /// a context for another contract (Target::bump)
    Foreign,
    /// a CreateContractHostFn context
    Create,
}

#[derive(Clone, Debug, Serialize, Deserialize)]
pub enum Adv {
    K(u32),
    ToReady { op: Sel, d: i8 },
}

#[derive(Clone, Debug, Serialize, Deserialize)]
pub enum Step {
    Schedule { op: Sel, delay: Delay, by: u16, auth: Auth },
    Cancel { op: Sel, by: u16, auth: Auth },
    /// execute_op (meant for external targets); `at`: first move to ready(op)+d
    Execute { op: Sel, executor: ExecSel, auth: Auth, at: Option<i8> },
    Advance(Adv),
    /// end-to-end admin call with crafted controller credentials
    /// `fit`: pad (with well-formed descriptors) / truncate `metas` to one descriptor per context
    Probe { call: CallSel, second: Option<CallSel>, metas: Vec<MetaSpec>, fit: bool, via: Via, at: Option<i8> },
    /// direct `__check_auth` invocation with an arbitrary (context list, descriptor list) pair
    CheckAuth { contexts: Vec<CtxSpec>, metas: Vec<MetaSpec>, fit: bool, at: Option<i8> },
    /// accept_admin_transfer by an actor
    Accept { by: u16, auth: Auth },
}

#[derive(Clone, Debug, Serialize, Deserialize)]
pub struct Case {
    /// the admin call most operations and probes of this case are about
    pub chosen: AdminCall,
    pub seq: u32,
    pub min_delay: u32,
    pub n_prop: u8,
    pub n_exec: u8,
    pub pool: Vec<OpSpec>,
    pub steps: Vec<Step>,
}

// ---------------------------------------------------------------- strategy

fn admin_call() -> BoxedStrategy<AdminCall> {
    prop_oneof![
        5 => (0u32..8).prop_map(AdminCall::UpdateDelay),
        3 => (0u8..N_ACT as u8, 0u8..4).prop_map(|(acct, role)| AdminCall::GrantRole { acct, role }),
        3 => (0u8..N_ACT as u8, 0u8..4).prop_map(|(acct, role)| AdminCall::RevokeRole { acct, role }),
        1 => (0u8..4, 0u8..4).prop_map(|(role, admin_role)| AdminCall::SetRoleAdmin { role, admin_role }),
        1 => (0u8..N_ACT as u8, 0u16..3000).prop_map(|(to, live)| AdminCall::TransferAdmin { to, live }),
        1 => Just(AdminCall::RenounceAdmin),
    ]
    .boxed()
}

/// (idx, last, unset, pending, done, admin_pending, ext_pending)
fn sel_w(w: [u32; 7]) -> BoxedStrategy<Sel> {
    prop_oneof![
        w[0] => any::<u16>().prop_map(Sel::Idx),
        w[1] => Just(Sel::Last),
        w[2] => any::<u16>().prop_map(Sel::Unset),
        w[3] => any::<u16>().prop_map(Sel::Pending),
        w[4] => any::<u16>().prop_map(Sel::Done),
        w[5] => any::<u16>().prop_map(Sel::AdminPending),
        w[6] => any::<u16>().prop_map(Sel::ExtPending),
    ]
    .boxed()
}

fn auth() -> BoxedStrategy<Auth> {
    prop_oneof![
        12 => Just(Auth::Exact),
        1 => Just(Auth::Drop),
        1 => any::<u16>().prop_map(Auth::Swap),
        1 => Just(Auth::Tamper),
        1 => any::<u16>().prop_map(Auth::Surplus),
    ]
    .boxed()
}

fn exec_sel() -> BoxedStrategy<ExecSel> {
    prop_oneof![1 => Just(ExecSel::Absent), 8 => any::<u16>().prop_map(ExecSel::Holder), 1 => any::<u16>().prop_map(ExecSel::NonHolder)].boxed()
}

fn entry_mode() -> BoxedStrategy<EntryMode> {
    prop_oneof![
        12 => Just(EntryMode::Exact),
        2 => Just(EntryMode::Missing),
        1 => Just(EntryMode::TamperSalt),
        1 => Just(EntryMode::TamperArgs),
        1 => Just(EntryMode::WrongRoot),
        1 => any::<u16>().prop_map(EntryMode::OtherSigner),
    ]
    .boxed()
}

fn meta_good() -> BoxedStrategy<MetaSpec> {
    any::<u16>().prop_map(|k| MetaSpec { like: Like::Ctx, pred_tweak: false, salt_tweak: false, executor: ExecSel::Holder(k), entry: EntryMode::Exact }).boxed()
}
fn meta_any() -> BoxedStrategy<MetaSpec> {
    (
        prop_oneof![6 => Just(Like::Ctx), 1 => sel_w([2, 1, 0, 2, 1, 1, 0]).prop_map(Like::Op)],
        proptest::bool::weighted(0.1),
        proptest::bool::weighted(0.1),
        exec_sel(),
        entry_mode(),
    )
        .prop_map(|(like, pred_tweak, salt_tweak, executor, entry)| MetaSpec { like, pred_tweak, salt_tweak, executor, entry })
        .boxed()
}
/// descriptor lists: (specs, fit).  fit = one descriptor per context (padded with well-formed ones)
fn metas() -> BoxedStrategy<(Vec<MetaSpec>, bool)> {
    prop_oneof![
        6 => Just((vec![], true)),
        3 => proptest::collection::vec(meta_any(), 1..=3).prop_map(|v| (v, true)),
        2 => Just((vec![], false)),
        2 => proptest::collection::vec(prop_oneof![2 => meta_good(), 1 => meta_any()], 0..=3).prop_map(|v| (v, false)),
    ]
    .boxed()
}

fn call_sel() -> BoxedStrategy<CallSel> {
    prop_oneof![
        8 => sel_w([1, 3, 0, 1, 1, 6, 0]).prop_map(CallSel::Op),
        1 => sel_w([1, 2, 0, 1, 0, 3, 0]).prop_map(CallSel::OpTweaked),
        2 => admin_call().prop_map(CallSel::Free),
    ]
    .boxed()
}

fn at() -> BoxedStrategy<Option<i8>> {
    proptest::option::weighted(0.55, prop_oneof![Just(-1i8), Just(0), Just(0), Just(1)]).boxed()
}

fn step() -> BoxedStrategy<Step> {
    let probe = prop_oneof![
        8 => (call_sel(), metas(), prop_oneof![5 => Just(Via::Direct), 1 => Just(Via::Forward)], at())
            .prop_map(|(call, (metas, fit), via, at)| Step::Probe { call, second: None, metas, fit, via, at }),
        1 => (call_sel(), proptest::option::of(call_sel()), metas(), at())
            .prop_map(|(call, second, (metas, fit), at)| Step::Probe { call, second, metas, fit, via: Via::Batch, at }),
    ];
    let ctx_spec = prop_oneof![
        8 => sel_w([1, 2, 0, 1, 1, 6, 1]).prop_map(CtxSpec::Op),
        1 => sel_w([1, 2, 0, 1, 0, 3, 0]).prop_map(CtxSpec::OpTweaked),
        1 => admin_call().prop_map(CtxSpec::Free),
        1 => Just(CtxSpec::Foreign),
        1 => Just(CtxSpec::Create),
    ];
    let ctx_list = prop_oneof![
        5 => proptest::collection::vec(ctx_spec, 0..=3),
        // the first and the last pending self-administration operation in one batch
        1 => Just(vec![CtxSpec::Op(Sel::AdminPending(0)), CtxSpec::Op(Sel::AdminPending(u16::MAX))]),
        1 => Just(vec![CtxSpec::Op(Sel::AdminPending(u16::MAX)), CtxSpec::Op(Sel::AdminPending(0))]),
    ];
    let check_auth = (ctx_list, metas(), at()).prop_map(|(contexts, (metas, fit), at)| Step::CheckAuth { contexts, metas, fit, at });
    prop_oneof![
        9 => (sel_w([1, 1, 8, 1, 1, 0, 0]), prop_oneof![1 => Just(Delay::MinPlus(-1)), 5 => Just(Delay::MinPlus(0)), 2 => Just(Delay::MinPlus(1)), 3 => (0u32..6).prop_map(Delay::K), 1 => prop_oneof![(-1i8..=3).prop_map(Delay::Huge), Just(Delay::K(u32::MAX))]], prop_oneof![3 => 0u16..10000, 1 => 0u16..20000, 1 => any::<u16>()], auth())
            .prop_map(|(op, delay, by, auth)| Step::Schedule { op, delay, by, auth }),
        2 => (sel_w([1, 2, 1, 5, 1, 0, 0]), prop_oneof![4 => 0u16..20000, 1 => any::<u16>()], auth()).prop_map(|(op, by, auth)| Step::Cancel { op, by, auth }),
        4 => (sel_w([1, 1, 0, 1, 1, 0, 10]), exec_sel(), auth(), at()).prop_map(|(op, executor, auth, at)| Step::Execute { op, executor, auth, at }),
        4 => prop_oneof![1 => (0u32..8).prop_map(Adv::K), 3 => (sel_w([0, 4, 0, 3, 0, 3, 1]), prop_oneof![Just(-1i8), Just(0), Just(0), Just(1)]).prop_map(|(op, d)| Adv::ToReady { op, d })]
            .prop_map(Step::Advance),
        10 => probe,
        5 => check_auth,
        1 => (any::<u16>(), auth()).prop_map(|(by, auth)| Step::Accept { by, auth }),
    ]
    .boxed()
}

fn strategy(tier: Tier) -> BoxedStrategy<Case> {
    let max = tier.pick(30usize, 60usize);
    let op_spec = (
        prop_oneof![6 => Just(OpTarget::Chosen), 3 => admin_call().prop_map(OpTarget::Admin), 3 => (0u8..3).prop_map(OpTarget::External)],
        prop_oneof![5 => Just(PredSel::None), 3 => any::<u16>().prop_map(PredSel::Pool), 1 => Just(PredSel::Never)],
        0u8..3,
    )
        .prop_map(|(target, pred, salt)| OpSpec { target, pred, salt });
    (
        admin_call(),
        100u32..5000,
        prop_oneof![1 => Just(0u32), 5 => 1u32..6],
        1u8..=2,
        0u8..=2,
        (0u8..3, proptest::collection::vec(op_spec, POOL - 2..=POOL - 2)),
        // two concatenated vectors truncated to `max`: long histories are the rule, and both parts shrink by deletion
        (proptest::collection::vec(step(), 0..=max), proptest::collection::vec(step(), 0..=max)),
    )
        .prop_map(move |(chosen, seq, min_delay, n_prop, n_exec, (ext_arg, mut pool), (mut steps, more))| {
            steps.extend(more);
            steps.truncate(max);
            // pool op 0 = the chosen self-administration call, pool op 1 = an external call (always present)
            pool.insert(0, OpSpec { target: OpTarget::External(ext_arg), pred: PredSel::None, salt: 0 });
            pool.insert(0, OpSpec { target: OpTarget::Chosen, pred: PredSel::None, salt: 0 });
            Case { chosen, seq, min_delay, n_prop, n_exec, pool, steps }
        })
        .boxed()
}

// ---------------------------------------------------------------- world + model

#[derive(Clone, Copy, Debug, PartialEq, Eq)]
enum St {
    Unset,
    Sched(u32),
    Done,
}
fn derive(st: St, now: u32) -> (u32, u32) {
    match st {
        St::Unset => (0, OperationState::Unset as u32),
        St::Sched(r) if r > now => (r, OperationState::Waiting as u32),
        St::Sched(r) => (r, OperationState::Ready as u32),
        St::Done => (1, OperationState::Done as u32),
    }
}

#[derive(Clone, Copy, Debug, PartialEq, Eq)]
enum Adm {
    Ctrl,
    Actor(usize),
    Nobody,
}

#[derive(Clone, Debug)]
struct Model {
    min_delay: u32,
    admin: Adm,
    /// pending admin transfer (actor, live_until)
    pending: Option<(usize, u32)>,
    roles: BTreeSet<(usize, usize)>,
    role_admin: [Option<usize>; 4],
    st: Vec<St>,
    target_total: u32,
}
impl Model {
    fn execs(&self) -> Vec<usize> {
        (0..N_ACT).filter(|a| self.roles.contains(&(*a, R_EXEC))).collect()
    }
}

struct OpInfo {
    target: Address,
    func: Symbol,
    args: SVec<Val>,
    pred: BytesN<32>,
    salt: BytesN<32>,
    id: BytesN<32>,
    call: Option<AdminCall>,
    pred_idx: Option<usize>,
    pred_never: bool,
}

struct World {
    e: Env,
    ctrl: Address,
    actors: Vec<Address>,
    target: Address,
    batcher: Address,
    ops: Vec<OpInfo>,
    seq0: u32,
}

#[derive(Clone, Debug, PartialEq, Eq)]
struct Obs {
    min_delay: u32,
    admin: Option<Address>,
    /// [account (actors then controller)][role]
    roles: Vec<[bool; 4]>,
    exec_count: u32,
    role_admin: [Option<usize>; 4],
    ops: Vec<(u32, u32)>,
    target_total: u32,
}

fn zero(e: &Env) -> BytesN<32> {
    BytesN::from_array(e, &[0u8; 32])
}
fn role_sym(e: &Env, r: usize) -> Symbol {
    Symbol::new(e, ROLES[r % 4])
}
fn svec(e: &Env, v: &[Val]) -> SVec<Val> {
    let mut o = SVec::new(e);
    for x in v {
        o.push_back(*x);
    }
    o
}

impl World {
    fn call_inv(&self, c: &AdminCall) -> (&'static str, Vec<Val>) {
        let e = &self.e;
        match c {
            AdminCall::UpdateDelay(v) => ("update_delay", vec![v.into_val(e)]),
            AdminCall::GrantRole { acct, role } => {
                ("grant_role", vec![self.actors[*acct as usize % N_ACT].clone().into_val(e), role_sym(e, *role as usize).into_val(e), self.ctrl.clone().into_val(e)])
            }
            AdminCall::RevokeRole { acct, role } => {
                ("revoke_role", vec![self.actors[*acct as usize % N_ACT].clone().into_val(e), role_sym(e, *role as usize).into_val(e), self.ctrl.clone().into_val(e)])
            }
            AdminCall::SetRoleAdmin { role, admin_role } => ("set_role_admin", vec![role_sym(e, *role as usize).into_val(e), role_sym(e, *admin_role as usize).into_val(e)]),
            AdminCall::TransferAdmin { to, live } => ("transfer_admin_role", vec![self.actors[*to as usize % N_ACT].clone().into_val(e), self.live_until(*live).into_val(e)]),
            AdminCall::RenounceAdmin => ("renounce_admin", vec![]),
        }
    }
    fn live_until(&self, live: u16) -> u32 {
        self.seq0 + 50 + live as u32
    }

    fn observe(&self) -> Result<Obs, Violation> {
        let e = &self.e;
        let r: SVec<u32> = call_t(e, &self.target, "report", args![e; SVec::<(u32, u32)>::new(e)])
            .map_err(|er| violation("C09/harness/target-report", format!("target report failed: {er}")))?;
        let target_total = r.get(0).unwrap_or(u32::MAX);
        let mut accts = self.actors.clone();
        accts.push(self.ctrl.clone());
        let o = std::panic::catch_unwind(std::panic::AssertUnwindSafe(|| {
            e.as_contract(&self.ctrl, || {
                use stellar_access::access_control as ac;
                use stellar_governance::timelock as tl;
                let roles: Vec<[bool; 4]> = accts
                    .iter()
                    .map(|a| {
                        let mut row = [false; 4];
                        for (r, slot) in row.iter_mut().enumerate() {
                            *slot = ac::has_role(e, a, &role_sym(e, r)).is_some();
                        }
                        row
                    })
                    .collect();
                let mut role_admin = [None; 4];
                for (r, slot) in role_admin.iter_mut().enumerate() {
                    *slot = ac::get_role_admin(e, &role_sym(e, r)).map(|s| (0..4).find(|k| role_sym(e, *k) == s).unwrap_or(99));
                }
                Obs {
                    min_delay: tl::get_min_delay(e),
                    admin: ac::get_admin(e),
                    roles,
                    exec_count: ac::get_role_member_count(e, &role_sym(e, R_EXEC)),
                    role_admin,
                    ops: self.ops.iter().map(|o| (tl::get_operation_ledger(e, &o.id), tl::get_operation_state(e, &o.id) as u32)).collect(),
                    target_total,
                }
            })
        }));
        o.map_err(|_| violation("C09/getters/failed", "a library getter panicked while reading the controller state"))
    }

    fn expect(&self, m: &Model) -> Obs {
        let now = envx::seq(&self.e);
        let mut roles = vec![[false; 4]; N_ACT + 1];
        for (a, r) in &m.roles {
            roles[*a][*r] = true;
        }
        Obs {
            min_delay: m.min_delay,
            admin: match m.admin {
                Adm::Ctrl => Some(self.ctrl.clone()),
                Adm::Actor(a) => Some(self.actors[a].clone()),
                Adm::Nobody => None,
            },
            roles,
            exec_count: m.execs().len() as u32,
            role_admin: m.role_admin,
            ops: m.st.iter().map(|s| derive(*s, now)).collect(),
            target_total: m.target_total,
        }
    }
}

fn pred_done(w: &World, m: &Model, k: usize) -> bool {
    match (w.ops[k].pred_idx, w.ops[k].pred_never) {
        (_, true) => false,
        (Some(j), _) => m.st[j] == St::Done,
        (None, _) => true,
    }
}

fn resolve(s: &Sel, last: usize, w: &World, m: &Model) -> usize {
    let class = |x: u16, f: &dyn Fn(usize) -> bool| -> Option<usize> {
        let v: Vec<usize> = (0..POOL).filter(|i| f(*i)).collect();
        if v.is_empty() {
            None
        } else {
            Some(v[pick(x, v.len())])
        }
    };
    let pend = |i: usize| matches!(m.st[i], St::Sched(_));
    match s {
        Sel::Idx(x) => pick(*x, POOL),
        Sel::Last => last,
        Sel::Unset(x) => class(*x, &|i| m.st[i] == St::Unset).unwrap_or(pick(*x, POOL)),
        Sel::Pending(x) => class(*x, &|i| pend(i)).unwrap_or(pick(*x, POOL)),
        Sel::Done(x) => class(*x, &|i| m.st[i] == St::Done).unwrap_or(pick(*x, POOL)),
        Sel::AdminPending(x) => class(*x, &|i| pend(i) && w.ops[i].call.is_some() && pred_done(w, m, i))
            .or_else(|| class(*x, &|i| pend(i) && w.ops[i].call.is_some()))
            .or_else(|| class(*x, &|i| w.ops[i].call.is_some()))
            .unwrap_or(0),
        Sel::ExtPending(x) => class(*x, &|i| pend(i) && w.ops[i].call.is_none() && pred_done(w, m, i))
            .or_else(|| class(*x, &|i| pend(i) && w.ops[i].call.is_none()))
            .or_else(|| class(*x, &|i| w.ops[i].call.is_none()))
            .unwrap_or(pick(*x, POOL)),
    }
}

fn tweak_call(c: &AdminCall) -> AdminCall {
    match c {
        AdminCall::UpdateDelay(v) => AdminCall::UpdateDelay(v + 1),
        AdminCall::GrantRole { acct, role } => AdminCall::GrantRole { acct: (acct + 1) % N_ACT as u8, role: *role },
        AdminCall::RevokeRole { acct, role } => AdminCall::RevokeRole { acct: *acct, role: (role + 1) % 4 },
        AdminCall::SetRoleAdmin { role, admin_role } => AdminCall::SetRoleAdmin { role: *role, admin_role: (admin_role + 1) % 4 },
        AdminCall::TransferAdmin { to, live } => AdminCall::TransferAdmin { to: (to + 1) % N_ACT as u8, live: *live },
        AdminCall::RenounceAdmin => AdminCall::UpdateDelay(0),
    }
}

/// model-level context
#[derive(Clone, Debug)]
enum MCtx {
    Call(AdminCall),
    Foreign,
}
#[derive(Clone, Debug)]
struct MMeta {
    pred: BytesN<32>,
    salt: BytesN<32>,
    executor: Option<usize>,
    /// an exact entry of `executor` for this very (context, descriptor) was attached
    entry_ok: bool,
}

#[derive(Debug)]
#[allow(dead_code)]
enum Reject {
    Short,
    Foreign,
    NoSuchOp,
    NotReady(St),
    PredNotDone,
    ExecutorRole,
    ExecutorAuth,
}
impl Reject {
    fn clause(&self) -> &'static str {
        match self {
            Reject::Short => "descriptor-count-mismatch",
            Reject::Foreign => "foreign-context-accepted",
            Reject::NoSuchOp => "no-matching-operation",
            Reject::NotReady(_) => "operation-not-ready",
            Reject::PredNotDone => "predecessor-not-done",
            Reject::ExecutorRole => "executor-without-role",
            Reject::ExecutorAuth => "executor-not-authorized",
        }
    }
}

/// What `__check_auth` MAY accept according to the statement: processes the contexts in order on a
/// copy of the model; returns the consumed operations or the first reason for refusal.
fn model_check_auth(w: &World, m: &Model, now: u32, ctxs: &[MCtx], metas: &[MMeta]) -> Result<Vec<usize>, (usize, Reject)> {
    let mut m = m.clone();
    let mut consumed = vec![];
    for (i, c) in ctxs.iter().enumerate() {
        let Some(meta) = metas.get(i) else { return Err((i, Reject::Short)) };
        let MCtx::Call(call) = c else { return Err((i, Reject::Foreign)) };
        let Some(k) = (0..POOL).find(|k| w.ops[*k].call.as_ref() == Some(call) && w.ops[*k].pred == meta.pred && w.ops[*k].salt == meta.salt) else {
            return Err((i, Reject::NoSuchOp));
        };
        if !matches!(m.st[k], St::Sched(r) if r <= now) {
            return Err((i, Reject::NotReady(m.st[k])));
        }
        if !pred_done(w, &m, k) {
            return Err((i, Reject::PredNotDone));
        }
        if !m.execs().is_empty() {
            match meta.executor {
                Some(x) if m.roles.contains(&(x, R_EXEC)) => {
                    if !meta.entry_ok {
                        return Err((i, Reject::ExecutorAuth));
                    }
                }
                _ => return Err((i, Reject::ExecutorRole)),
            }
        }
        m.st[k] = St::Done;
        consumed.push(k);
    }
    Ok(consumed)
}

/// Is the body of the admin function certain to succeed (Some(true)) / fail (Some(false)) once authorized?
fn body_ok(w: &World, m: &Model, c: &AdminCall, now: u32) -> Option<bool> {
    if m.admin != Adm::Ctrl {
        return Some(false);
    }
    match c {
        AdminCall::UpdateDelay(_) | AdminCall::GrantRole { .. } | AdminCall::SetRoleAdmin { .. } => Some(true),
        AdminCall::RevokeRole { acct, role } => Some(m.roles.contains(&(*acct as usize % N_ACT, *role as usize % 4))),
        AdminCall::TransferAdmin { live, .. } => Some(w.live_until(*live) >= now),
        AdminCall::RenounceAdmin => {
            if m.pending.is_none() {
                Some(true)
            } else {
                None
            }
        }
    }
}

fn apply_effect(w: &World, m: &mut Model, c: &AdminCall) {
    match c {
        AdminCall::UpdateDelay(v) => m.min_delay = *v,
        AdminCall::GrantRole { acct, role } => {
            m.roles.insert((*acct as usize % N_ACT, *role as usize % 4));
        }
        AdminCall::RevokeRole { acct, role } => {
            m.roles.remove(&(*acct as usize % N_ACT, *role as usize % 4));
        }
        AdminCall::SetRoleAdmin { role, admin_role } => m.role_admin[*role as usize % 4] = Some(*admin_role as usize % 4),
        AdminCall::TransferAdmin { to, live } => m.pending = Some((*to as usize % N_ACT, w.live_until(*live))),
        AdminCall::RenounceAdmin => m.admin = Adm::Nobody,
    }
}

/// Attach entries per auth mode for a call requiring `who`'s authorization of `inv`; returns "exact entry attached".
fn auth_entries(w: &World, who: usize, inv: &Inv, tampered: &Inv, mode: &Auth) -> (Vec<SorobanAuthorizationEntry>, bool) {
    let e = &w.e;
    let other = |k: u16| -> usize {
        let v: Vec<usize> = (0..N_ACT).filter(|a| *a != who).collect();
        v[pick(k, v.len())]
    };
    match mode {
        Auth::Exact => (vec![envx::entry(e, &w.actors[who], inv)], true),
        Auth::Drop => (vec![], false),
        Auth::Swap(k) => (vec![envx::entry(e, &w.actors[other(*k)], inv)], false),
        Auth::Tamper => (vec![envx::entry(e, &w.actors[who], tampered)], false),
        Auth::Surplus(k) => {
            let junk = Inv::new(&w.target, "bump", args![e; 1u32]);
            (vec![envx::entry(e, &w.actors[who], inv), envx::entry(e, &w.actors[other(*k)], &junk)], true)
        }
    }
}

fn tweak_bytes(e: &Env, b: &BytesN<32>) -> BytesN<32> {
    let mut a = b.to_array();
    a[31] ^= 0x5a;
    BytesN::from_array(e, &a)
}

/// Resolve descriptor specs against contexts; builds the soroban descriptors, the model descriptors and
/// the executors' entries.
#[allow(clippy::type_complexity)]
fn build_metas(
    w: &World,
    m: &Model,
    last: usize,
    specs: &[MetaSpec],
    ctx_ops: &[Option<usize>],
    ctx_calls: &[Option<(Symbol, SVec<Val>)>],
) -> (SVec<OperationMeta>, Vec<MMeta>, Vec<SorobanAuthorizationEntry>) {
    let e = &w.e;
    let mut sv: SVec<OperationMeta> = SVec::new(e);
    let mut mm = vec![];
    let mut entries = vec![];
    let holders = m.execs();
    for (i, sp) in specs.iter().enumerate() {
        let k = match &sp.like {
            Like::Ctx => ctx_ops.get(i).copied().flatten().unwrap_or(ctx_ops.first().copied().flatten().unwrap_or(0)),
            Like::Op(s) => resolve(s, last, w, m),
        };
        let mut pred = w.ops[k].pred.clone();
        let mut salt = w.ops[k].salt.clone();
        if sp.pred_tweak {
            pred = if pred == zero(e) { w.ops[k].id.clone() } else { zero(e) };
        }
        if sp.salt_tweak {
            salt = tweak_bytes(e, &salt);
        }
        let executor: Option<usize> = match &sp.executor {
            ExecSel::Absent => None,
            ExecSel::Holder(x) => {
                if holders.is_empty() {
                    None
                } else {
                    Some(holders[pick(*x, holders.len())])
                }
            }
            ExecSel::NonHolder(x) => {
                let v: Vec<usize> = (0..N_ACT).filter(|a| !holders.contains(a)).collect();
                if v.is_empty() {
                    None
                } else {
                    Some(v[pick(*x, v.len())])
                }
            }
        };
        let mut entry_ok = false;
        if let (Some(x), Some(Some((f, a)))) = (executor, ctx_calls.get(i)) {
            // what the executor must authorize: require_auth_for_args inside the controller's __check_auth
            let mk = |salt: &BytesN<32>, a: &SVec<Val>, root: &str| -> Inv {
                Inv::new(&w.ctrl, root, args![e; Symbol::new(e, "execute_op"), w.ctrl.clone(), f.clone(), a.clone(), pred.clone(), salt.clone()])
            };
            match &sp.entry {
                EntryMode::Exact => {
                    entries.push(envx::entry(e, &w.actors[x], &mk(&salt, a, "__check_auth")));
                    entry_ok = true;
                }
                EntryMode::Missing => {}
                EntryMode::TamperSalt => entries.push(envx::entry(e, &w.actors[x], &mk(&tweak_bytes(e, &salt), a, "__check_auth"))),
                EntryMode::TamperArgs => {
                    let mut a2 = a.clone();
                    a2.push_back(7u32.into_val(e));
                    entries.push(envx::entry(e, &w.actors[x], &mk(&salt, &a2, "__check_auth")));
                }
                EntryMode::WrongRoot => entries.push(envx::entry(e, &w.actors[x], &mk(&salt, a, "execute_op"))),
                EntryMode::OtherSigner(o) => {
                    let v: Vec<usize> = (0..N_ACT).filter(|y| *y != x).collect();
                    entries.push(envx::entry(e, &w.actors[v[pick(*o, v.len())]], &mk(&salt, a, "__check_auth")));
                }
            }
        }
        sv.push_back(OperationMeta { predecessor: pred.clone(), salt: salt.clone(), executor: executor.map(|x| w.actors[x].clone()) });
        mm.push(MMeta { pred, salt, executor, entry_ok });
    }
    (sv, mm, entries)
}

fn fit_metas(specs: &[MetaSpec], fit: bool, n: usize) -> Vec<MetaSpec> {
    let mut v: Vec<MetaSpec> = specs.to_vec();
    if fit {
        v.truncate(n);
        while v.len() < n {
            v.push(MetaSpec { like: Like::Ctx, pred_tweak: false, salt_tweak: false, executor: ExecSel::Holder(v.len() as u16 * 21845), entry: EntryMode::Exact });
        }
    }
    v
}

fn resolve_call(w: &World, m: &Model, last: usize, c: &CallSel) -> (AdminCall, Option<usize>) {
    let of_op = |k: usize| -> AdminCall { w.ops[k].call.clone().or_else(|| w.ops[0].call.clone()).unwrap_or(AdminCall::UpdateDelay(0)) };
    match c {
        CallSel::Op(s) => {
            let k = resolve(s, last, w, m);
            let k = if w.ops[k].call.is_some() { k } else { 0 };
            (of_op(k), Some(k))
        }
        CallSel::OpTweaked(s) => {
            let k = resolve(s, last, w, m);
            let k = if w.ops[k].call.is_some() { k } else { 0 };
            (tweak_call(&of_op(k)), Some(k))
        }
        CallSel::Free(c) => (c.clone(), (0..POOL).find(|k| w.ops[*k].call.as_ref() == Some(c))),
    }
}

fn pre_advance(w: &World, m: &Model, k: Option<usize>, at: &Option<i8>) {
    if let (Some(k), Some(d)) = (k, at) {
        if let St::Sched(r) = m.st[k] {
            let to = (r as i64 + *d as i64).max(0) as u32;
            // the test host fails with a storage TTL overflow when the ledger comes within a few million of
            // u32::MAX; operations whose ready ledger saturated are simply never reached (they stay Waiting)
            if to > envx::seq(&w.e) && to < u32::MAX - 20_000_000 {
                envx::set_seq(&w.e, to);
            }
        }
    }
}

fn accepted_violation(w: &World, m: &Model, what: &str, n_ctx: usize, n_meta: usize, rej: &(usize, Reject)) -> Violation {
    // observable effect of the call that went through (model `m` = state before the call)
    let effect = match w.observe() {
        Ok(got) => {
            let want = w.expect(m);
            let mut d = vec![];
            if got.min_delay != want.min_delay {
                d.push(format!("get_min_delay {} -> {}", want.min_delay, got.min_delay));
            }
            if got.admin != want.admin {
                d.push(format!("get_admin {:?} -> {:?}", want.admin, got.admin));
            }
            if got.roles != want.roles {
                d.push(format!("has_role matrix {:?} -> {:?}", want.roles, got.roles));
            }
            if got.role_admin != want.role_admin {
                d.push(format!("role admins {:?} -> {:?}", want.role_admin, got.role_admin));
            }
            if got.ops != want.ops {
                d.push(format!("operation (ledger,state) {:?} -> {:?}", want.ops, got.ops));
            }
            if d.is_empty() {
                "no getter changed".to_string()
            } else {
                d.join("; ")
            }
        }
        Err(_) => "state unreadable".to_string(),
    };
    if n_meta < n_ctx {
        violation(
            "C09/check_auth/descriptor-count-mismatch",
            format!(
                "{what}: accepted although only {n_meta} operation descriptor(s) were supplied for {n_ctx} authorized context(s); no ready operation was consumed for context {} [observed: {effect}]",
                rej.0
            ),
        )
    } else {
        violation(
            format!("C09/check_auth/{}", rej.1.clause()),
            format!("{what}: accepted, but context {} is not backed by a ready operation for exactly that call: {:?} [observed: {effect}]", rej.0, rej.1),
        )
    }
}

// ---------------------------------------------------------------- getter entry points (C08 state clause through the example's API)

/// Per-case bookkeeping of the getter sweeps (plain data, a pure function of the case).
#[derive(Default)]
struct Sweeps {
    /// bit s set: the entry points reported pool operation k in `OperationState` s (as u32)
    states: [u8; POOL],
    n: u32,
    /// the constructor's minimum delay
    min_delay0: u32,
}

/// Invokes every public getter ENTRY POINT of the example controller (top-level invocations through the
/// contract's dispatch, not the library functions) for every pool operation id plus one id that was never
/// scheduled, and compares with the model:
///   get_operation_state == Unset / Waiting / Ready / Done  (Ready: scheduled, not done, ledger >= ready ledger);
///   operation_exists == state != Unset; is_operation_pending == Waiting or Ready; is_operation_ready == Ready;
///   is_operation_done == Done;
///   get_operation_ledger == UNSET_LEDGER (unset) / DONE_LEDGER (done) / the ready ledger (scheduled), as documented
///   on `stellar_governance::timelock::get_operation_ledger`;
///   get_min_delay == the minimum delay in force; hash_operation(fields of one pool operation) == its id.
/// The calls need no authorization, emit no events and are made after the step's own checks.
fn getter_sweep(w: &World, m: &Model, ctx: &mut Ctx, sw: &mut Sweeps, what: &str) -> R {
    use stellar_governance::timelock::{DONE_LEDGER, UNSET_LEDGER};
    let e = &w.e;
    let now = envx::seq(e);
    envx::no_auth(e);
    sw.n += 1;
    ctx.class("getter_sweep");

    let md: u32 = call_t(e, &w.ctrl, "get_min_delay", args![e]).map_err(|er| violation("C09/getter.get_min_delay/failed", format!("after {what}: {er}")))?;
    ensure!(md == m.min_delay, "C09/getter.get_min_delay/ne-model", "after {what}: get_min_delay() = {md}, minimum delay in force = {}", m.min_delay);
    if m.min_delay != sw.min_delay0 {
        ctx.class("getter_min_delay_changed");
    }

    // hash_operation: the id of a pool operation (rotating) is re-derived from the same fields
    let o = &w.ops[sw.n as usize % POOL];
    let id: BytesN<32> = call_t(e, &w.ctrl, "hash_operation", args![e; o.target.clone(), o.func.clone(), o.args.clone(), o.pred.clone(), o.salt.clone()])
        .map_err(|er| violation("C09/getter.hash_operation/failed", format!("after {what}: {er}")))?;
    ensure!(id == o.id, "C09/getter.hash_operation/id-not-stable", "after {what}: hash_operation of the fields of pool operation {} no longer yields its id", sw.n as usize % POOL);

    let unknown = BytesN::from_array(e, &[0xA7; 32]);
    for k in 0..=POOL {
        let (id, st) = if k < POOL { (&w.ops[k].id, m.st[k]) } else { (&unknown, St::Unset) };
        let who = if k < POOL { format!("pool operation {k}") } else { "an id that was never scheduled".to_string() };
        let (_, want_state) = derive(st, now);
        let want_ledger = match st {
            St::Unset => UNSET_LEDGER,
            St::Done => DONE_LEDGER,
            St::Sched(r) => r,
        };
        let (unset, waiting, ready, done) =
            (OperationState::Unset as u32, OperationState::Waiting as u32, OperationState::Ready as u32, OperationState::Done as u32);

        let got: OperationState = call_t(e, &w.ctrl, "get_operation_state", args![e; id.clone()])
            .map_err(|er| violation("C09/getter.get_operation_state/failed", format!("after {what}, {who}: {er}")))?;
        ensure!(
            got as u32 == want_state,
            "C09/getter.get_operation_state/ne-model",
            "after {what}, {who}: get_operation_state = {:?}, model {:?} at ledger {now} (state {want_state})",
            got,
            st
        );
        let got: u32 = call_t(e, &w.ctrl, "get_operation_ledger", args![e; id.clone()])
            .map_err(|er| violation("C09/getter.get_operation_ledger/failed", format!("after {what}, {who}: {er}")))?;
        ensure!(got == want_ledger, "C09/getter.get_operation_ledger/ne-model", "after {what}, {who}: get_operation_ledger = {got}, documented value for {:?} is {want_ledger}", st);
        let flags: [(&str, bool); 4] = [
            ("operation_exists", want_state != unset),
            ("is_operation_pending", want_state == waiting || want_state == ready),
            ("is_operation_ready", want_state == ready),
            ("is_operation_done", want_state == done),
        ];
        for (f, want) in flags {
            let got: bool =
                call_t(e, &w.ctrl, f, args![e; id.clone()]).map_err(|er| violation(format!("C09/getter.{f}/failed"), format!("after {what}, {who}: {er}")))?;
            ensure!(got == want, format!("C09/getter.{f}/ne-model"), "after {what}, {who}: {f} = {got}, model {:?} at ledger {now} requires {want}", st);
        }

        // classes
        if k == POOL {
            ctx.class("getter_unknown_id");
            continue;
        }
        let before = sw.states[k];
        sw.states[k] |= 1 << want_state;
        match st {
            St::Unset => {
                // Unset reported again after the id had been pending: it was cancelled
                ctx.class(if before & ((1 << waiting) | (1 << ready)) != 0 { "getter_id_unset_after_cancel" } else { "getter_id_unset" });
            }
            St::Done => ctx.class("getter_id_done"),
            St::Sched(r) => {
                ctx.class(if r > now { "getter_id_waiting" } else { "getter_id_ready" });
                if r == now {
                    ctx.class("getter_id_ready_at_ready_ledger");
                }
                if r == now.wrapping_add(1) {
                    ctx.class("getter_id_waiting_at_ready_minus_1");
                }
                if r == u32::MAX {
                    ctx.class("getter_id_ready_ledger_saturated");
                }
            }
        }
    }
    Ok(())
}

/// The `getters` sub-check: the same generator and interpreter, with the getter sweep after every step.
pub fn run_getters(case: &Case, ctx: &mut Ctx) -> R {
    run_with(case, ctx, true)
}

pub fn run(case: &Case, ctx: &mut Ctx) -> R {
    run_with(case, ctx, false)
}

fn run_with(case: &Case, ctx: &mut Ctx, sweep: bool) -> R {
    ensure!(case.pool.len() == POOL && case.n_prop >= 1 && case.n_prop <= 2 && case.n_exec <= 2, "C09/harness/ill-formed-case", "ill-formed case");
    let e = envx::new_env(case.seq, envx::BIG_TTL);
    // actors: 0,1 = proposer candidates; 2,3 = executor candidates; 4,5 = strangers
    let actors = envx::actors(&e, N_ACT);
    let mut proposers: SVec<Address> = SVec::new(&e);
    let mut executors: SVec<Address> = SVec::new(&e);
    let mut roles = BTreeSet::new();
    for i in 0..case.n_prop as usize {
        proposers.push_back(actors[i].clone());
        roles.insert((i, R_PROP));
        roles.insert((i, R_CANC));
    }
    for i in 0..case.n_exec as usize {
        executors.push_back(actors[2 + i].clone());
        roles.insert((2 + i, R_EXEC));
    }
    let ctrl = e.register(TimelockController, (case.min_delay, proposers, executors, None::<Address>));
    let target = e.register(Target, ());
    let batcher = e.register(Batcher, ());
    let mut w = World { e: e.clone(), ctrl: ctrl.clone(), actors, target: target.clone(), batcher, ops: vec![], seq0: case.seq };
    let never = BytesN::from_array(&e, &[0xEE; 32]);
    for (i, sp) in case.pool.iter().enumerate() {
        let mut salt = [0u8; 32];
        salt[0] = i as u8 + 1;
        salt[1] = sp.salt;
        let (tgt, func, a, callo) = match &sp.target {
            OpTarget::Chosen => {
                let (f, a) = w.call_inv(&case.chosen);
                (ctrl.clone(), Symbol::new(&e, f), svec(&e, &a), Some(case.chosen.clone()))
            }
            OpTarget::Admin(c) => {
                let (f, a) = w.call_inv(c);
                (ctrl.clone(), Symbol::new(&e, f), svec(&e, &a), Some(c.clone()))
            }
            OpTarget::External(x) => (target.clone(), Symbol::new(&e, "bump"), args![&e; *x as u32], None),
        };
        let (pred, pred_idx, pred_never) = match &sp.pred {
            PredSel::Pool(s) if i > 0 => {
                let j = pick(*s, i);
                (w.ops[j].id.clone(), Some(j), false)
            }
            PredSel::Never => (never.clone(), None, true),
            _ => (zero(&e), None, false),
        };
        let salt = BytesN::from_array(&e, &salt);
        let id: BytesN<32> = call_t(&e, &ctrl, "hash_operation", args![&e; tgt.clone(), func.clone(), a.clone(), pred.clone(), salt.clone()])
            .map_err(|er| violation("C09/hash_operation/failed", er))?;
        w.ops.push(OpInfo { target: tgt, func, args: a, pred, salt, id, call: callo, pred_idx, pred_never });
    }
    let w = w;
    let mut m = Model { min_delay: case.min_delay, admin: Adm::Ctrl, pending: None, roles, role_admin: [None; 4], st: vec![St::Unset; POOL], target_total: 0 };

    let compare = |m: &Model, what: &str| -> R {
        let got = w.observe()?;
        let want = w.expect(m);
        if got != want {
            let clause = if got.min_delay != want.min_delay {
                "min_delay"
            } else if got.admin != want.admin {
                "admin"
            } else if got.roles != want.roles || got.exec_count != want.exec_count || got.role_admin != want.role_admin {
                "roles"
            } else if got.ops != want.ops {
                "operation-state"
            } else {
                "target-invocations"
            };
            bail!(format!("C09/state/{clause}-mismatch"), "after {what}: observed {:?}, model {:?}", got, want);
        }
        Ok(())
    };
    compare(&m, "set-up")?;
    let mut sw = Sweeps { min_delay0: case.min_delay, ..Sweeps::default() };
    if sweep {
        getter_sweep(&w, &m, ctx, &mut sw, "set-up")?;
    }

    let mut last = 0usize;
    let (mut saw_short, mut saw_nonready, mut saw_accept) = (false, false, false);

    for (n, stp) in case.steps.iter().enumerate() {
        let what = format!("step {n} {:?}", stp);
        match stp {
            Step::Advance(a) => match a {
                Adv::K(k) => envx::advance(&e, *k),
                Adv::ToReady { op, d } => {
                    let k = resolve(op, last, &w, &m);
                    last = k;
                    pre_advance(&w, &m, Some(k), &Some(*d));
                }
            },
            Step::Schedule { op, delay, by, auth } => {
                let k = resolve(op, last, &w, &m);
                last = k;
                let by = pick(*by, N_ACT);
                let now = envx::seq(&e);
                let d = match delay {
                    Delay::MinPlus(x) => (m.min_delay as i64 + *x as i64).max(0) as u32,
                    Delay::K(x) => *x,
                    Delay::Huge(x) => ((u32::MAX - now) as i64 + *x as i64).clamp(0, u32::MAX as i64) as u32,
                };
                if now.checked_add(d).is_none() {
                    ctx.class("schedule_delay_saturating");
                }
                let o = &w.ops[k];
                let mk = |d: u32| Inv::new(&ctrl, "schedule_op", args![&e; o.target.clone(), o.func.clone(), o.args.clone(), o.pred.clone(), o.salt.clone(), d, w.actors[by].clone()]);
                let inv = mk(d);
                let (entries, exact) = auth_entries(&w, by, &inv, &mk(d.wrapping_add(1)), auth);
                envx::set_entries(&e, &entries);
                let r = call_t::<BytesN<32>>(&e, &ctrl, "schedule_op", svec(&e, &inv.args));
                envx::no_auth(&e);
                ctx.op(r.is_ok());
                let has_role = m.roles.contains(&(by, R_PROP));
                let tl_ok = m.st[k] == St::Unset && d >= m.min_delay;
                if !has_role {
                    ctx.class("schedule_by_non_proposer");
                }
                if !exact {
                    ctx.class("schedule_auth_defective");
                }
                match &r {
                    Ok(id) => {
                        ensure!(has_role, "C09/schedule_op/without-proposer-role", "{what}: actor {by} has no proposer role but scheduled");
                        ensure!(exact, "C09/schedule_op/without-proposer-authorization", "{what}: scheduled without the proposer's exact authorization entry ({:?})", auth);
                        ensure!(tl_ok, "C09/schedule_op/timelock-precondition", "{what}: op state {:?}, delay {d}, min_delay {}", m.st[k], m.min_delay);
                        ensure!(*id == o.id, "C09/schedule_op/id", "{what}: returned id differs from hash_operation");
                        m.st[k] = St::Sched(now.saturating_add(d));
                        ctx.class("schedule_ok");
                    }
                    Err(er) => {
                        ensure!(!(has_role && exact && tl_ok), "C09/schedule_op/refused-well-formed", "{what}: proposer with exact entry, op Unset, delay {d} >= {}: {er}", m.min_delay);
                    }
                }
            }
            Step::Cancel { op, by, auth } => {
                let k = resolve(op, last, &w, &m);
                last = k;
                let by = pick(*by, N_ACT);
                let o = &w.ops[k];
                let inv = Inv::new(&ctrl, "cancel_op", args![&e; o.id.clone(), w.actors[by].clone()]);
                let tam = Inv::new(&ctrl, "cancel_op", args![&e; tweak_bytes(&e, &o.id), w.actors[by].clone()]);
                let (entries, exact) = auth_entries(&w, by, &inv, &tam, auth);
                envx::set_entries(&e, &entries);
                let r = call(&e, &ctrl, "cancel_op", svec(&e, &inv.args));
                envx::no_auth(&e);
                ctx.op(r.is_ok());
                let has_role = m.roles.contains(&(by, R_CANC));
                let pending = matches!(m.st[k], St::Sched(_));
                if pending && !has_role {
                    ctx.class("cancel_pending_by_non_canceller");
                }
                if pending && has_role && !exact {
                    ctx.class("cancel_pending_auth_defective");
                }
                match &r {
                    Ok(_) => {
                        ensure!(has_role, "C09/cancel_op/without-canceller-role", "{what}: actor {by} has no canceller role but cancelled");
                        ensure!(exact, "C09/cancel_op/without-canceller-authorization", "{what}: cancelled without the canceller's exact authorization entry ({:?})", auth);
                        ensure!(pending, "C09/cancel_op/not-pending", "{what}: op state {:?}", m.st[k]);
                        m.st[k] = St::Unset;
                        ctx.class("cancel_ok");
                    }
                    Err(er) => ensure!(!(has_role && exact && pending), "C09/cancel_op/refused-well-formed", "{what}: canceller with exact entry, op pending: {er}"),
                }
            }
            Step::Execute { op, executor, auth, at } => {
                let k = resolve(op, last, &w, &m);
                last = k;
                pre_advance(&w, &m, Some(k), at);
                let now = envx::seq(&e);
                let o = &w.ops[k];
                let holders = m.execs();
                let ex: Option<usize> = match executor {
                    ExecSel::Absent => None,
                    ExecSel::Holder(x) => {
                        if holders.is_empty() {
                            Some(pick(*x, N_ACT))
                        } else {
                            Some(holders[pick(*x, holders.len())])
                        }
                    }
                    ExecSel::NonHolder(x) => {
                        let v: Vec<usize> = (0..N_ACT).filter(|a| !holders.contains(a)).collect();
                        Some(v[pick(*x, v.len())])
                    }
                };
                let exv: Option<Address> = ex.map(|x| w.actors[x].clone());
                let mk = |salt: &BytesN<32>| Inv::new(&ctrl, "execute_op", args![&e; o.target.clone(), o.func.clone(), o.args.clone(), o.pred.clone(), salt.clone(), exv.clone()]);
                let inv = mk(&o.salt);
                let (entries, exact) = match ex {
                    Some(x) => auth_entries(&w, x, &inv, &mk(&tweak_bytes(&e, &o.salt)), auth),
                    None => (vec![], false),
                };
                envx::set_entries(&e, &entries);
                let r = call(&e, &ctrl, "execute_op", svec(&e, &inv.args));
                envx::no_auth(&e);
                ctx.op(r.is_ok());
                let ready = matches!(m.st[k], St::Sched(r) if r <= now);
                let tl_ok = ready && pred_done(&w, &m, k);
                let exec_ok = holders.is_empty() || matches!(ex, Some(x) if holders.contains(&x) && exact);
                if tl_ok && !holders.is_empty() && !exec_ok {
                    ctx.class("execute_ready_without_executor_auth");
                }
                match &r {
                    Ok(_) => {
                        ensure!(o.call.is_none(), "C09/execute_op/self-target-reentered", "{what}: execute_op on the controller itself succeeded");
                        if !holders.is_empty() {
                            ensure!(matches!(ex, Some(x) if holders.contains(&x)), "C09/execute_op/without-executor-role", "{what}: executors are configured, but {:?} executed", ex);
                            ensure!(exact, "C09/execute_op/without-executor-authorization", "{what}: executed without the executor's exact authorization entry ({:?})", auth);
                        }
                        ensure!(tl_ok, "C09/execute_op/timelock-precondition", "{what}: op state {:?} at {now}, predecessor done {}", m.st[k], pred_done(&w, &m, k));
                        m.st[k] = St::Done;
                        m.target_total += 1;
                        ctx.class("execute_ok");
                    }
                    Err(er) => {
                        if o.call.is_some() {
                            ctx.class("execute_op_on_self_refused");
                        } else {
                            ensure!(!(tl_ok && exec_ok), "C09/execute_op/refused-well-formed", "{what}: ready external op, executor condition satisfied: {er}");
                        }
                    }
                }
            }
            Step::Accept { by, auth } => {
                let by = pick(*by, N_ACT);
                let inv = Inv::new(&ctrl, "accept_admin_transfer", args![&e]);
                let tam = Inv::new(&ctrl, "renounce_admin", args![&e]);
                let (entries, _) = auth_entries(&w, by, &inv, &tam, auth);
                // who signed the exact invocation (Swap / Surplus entries are signed by another actor)
                let other = |k: u16| -> usize {
                    let v: Vec<usize> = (0..N_ACT).filter(|a| *a != by).collect();
                    v[pick(k, v.len())]
                };
                let signers: Vec<usize> = match auth {
                    Auth::Exact | Auth::Surplus(_) => vec![by],
                    Auth::Swap(k) => vec![other(*k)],
                    Auth::Drop | Auth::Tamper => vec![],
                };
                envx::set_entries(&e, &entries);
                let r = call(&e, &ctrl, "accept_admin_transfer", args![&e]);
                envx::no_auth(&e);
                ctx.op(r.is_ok());
                if r.is_ok() {
                    let p = match m.pending {
                        Some((p, _)) if signers.contains(&p) => p,
                        _ => bail!(
                            "C09/accept_admin_transfer/without-consumed-transfer",
                            "{what}: admin transfer accepted with entries of {:?}; pending transfer in the model: {:?}",
                            signers,
                            m.pending
                        ),
                    };
                    m.admin = Adm::Actor(p);
                    m.pending = None;
                    compare(&m, &what)?;
                    if sweep {
                        getter_sweep(&w, &m, ctx, &mut sw, &what)?;
                    }
                    // the controller is no longer self-administered: outside the property's domain
                    ctx.class("admin_transferred_away");
                    break;
                }
            }
            Step::Probe { call: csel, second, metas, fit, via, at } => {
                let (c1, k1) = resolve_call(&w, &m, last, csel);
                if let Some(k) = k1 {
                    last = k;
                }
                pre_advance(&w, &m, k1, at);
                let now = envx::seq(&e);
                let (f1, a1) = w.call_inv(&c1);
                let a1 = svec(&e, &a1);
                let c2: Option<(AdminCall, Option<usize>)> = if *via == Via::Batch { second.as_ref().map(|s| resolve_call(&w, &m, last, s)) } else { None };
                // contexts as the host will present them
                let mut mctx: Vec<MCtx> = vec![];
                let mut ctx_ops: Vec<Option<usize>> = vec![];
                let mut ctx_calls: Vec<Option<(Symbol, SVec<Val>)>> = vec![];
                if *via == Via::Batch {
                    mctx.push(MCtx::Foreign);
                    ctx_ops.push(k1);
                    ctx_calls.push(None);
                }
                mctx.push(MCtx::Call(c1.clone()));
                ctx_ops.push(k1);
                ctx_calls.push(Some((Symbol::new(&e, f1), a1.clone())));
                let mut second_inv = None;
                if let Some((c2, k2)) = &c2 {
                    let (f2, a2) = w.call_inv(c2);
                    let a2 = svec(&e, &a2);
                    mctx.push(MCtx::Call(c2.clone()));
                    ctx_ops.push(*k2);
                    ctx_calls.push(Some((Symbol::new(&e, f2), a2.clone())));
                    second_inv = Some((f2, a2));
                }
                let metas = &fit_metas(metas, *fit, mctx.len());
                let (sig, mm, mut entries) = build_metas(&w, &m, last, metas, &ctx_ops, &ctx_calls);
                let sig_sc = ScVal::try_from_val(&e, &sig.to_val()).map_err(|_| violation("C09/harness/signature-conversion", "cannot convert the descriptor list"))?;
                let admin_inv = Inv::new(&ctrl, f1, a1.clone());
                let (top_c, top_f, top_args, root): (Address, &str, SVec<Val>, Inv) = match via {
                    Via::Direct => (ctrl.clone(), f1, a1.clone(), admin_inv.clone()),
                    Via::Forward => (w.batcher.clone(), "fwd", args![&e; ctrl.clone(), Symbol::new(&e, f1), a1.clone()], admin_inv.clone()),
                    Via::Batch => {
                        let (f2v, a2v): (Option<Symbol>, SVec<Val>) = match &second_inv {
                            Some((f2, a2)) => (Some(Symbol::new(&e, f2)), a2.clone()),
                            None => (None, SVec::new(&e)),
                        };
                        let targs = args![&e; ctrl.clone(), ctrl.clone(), Symbol::new(&e, f1), a1.clone(), f2v, a2v];
                        let mut root = Inv::new(&w.batcher, "run", targs.clone()).with_sub(admin_inv.clone());
                        if let Some((f2, a2)) = &second_inv {
                            root = root.with_sub(Inv::new(&ctrl, f2, a2.clone()));
                        }
                        (w.batcher.clone(), "run", targs, root)
                    }
                };
                entries.push(envx::entry_with_sig(&e, &ctrl, &root, sig_sc));
                envx::set_entries(&e, &entries);
                let r = call(&e, &top_c, top_f, top_args);
                envx::no_auth(&e);
                ctx.op(r.is_ok());

                let verdict = model_check_auth(&w, &m, now, &mctx, &mm);
                let short = mm.len() < mctx.len();
                if short {
                    saw_short = true;
                    ctx.class("probe_fewer_descriptors_than_contexts");
                }
                if mm.len() > mctx.len() {
                    ctx.class("probe_more_descriptors_than_contexts");
                }
                if mm.len() == mctx.len() && matches!(verdict, Err((_, Reject::NotReady(_)))) {
                    saw_nonready = true;
                    ctx.class("probe_wellformed_on_nonready_op");
                }
                if let Err((_, rj)) = &verdict {
                    ctx.class(&format!("probe_defect:{}", rj.clause()));
                }
                if *via != Via::Direct {
                    ctx.class(if *via == Via::Batch { "probe_via_batch" } else { "probe_via_forward" });
                }
                match &r {
                    Ok(_) => {
                        let consumed = match verdict {
                            Ok(c) => c,
                            Err(rej) => return Err(accepted_violation(&w, &m, &what, mctx.len(), mm.len(), &rej)),
                        };
                        for k in consumed {
                            m.st[k] = St::Done;
                        }
                        apply_effect(&w, &mut m, &c1);
                        if let Some((c2, _)) = &c2 {
                            apply_effect(&w, &mut m, c2);
                        }
                        saw_accept = true;
                        ctx.class("probe_accepted");
                        if !m.execs().is_empty() {
                            ctx.class("probe_accepted_with_executor_entry");
                        }
                    }
                    Err(er) => {
                        let certain = body_ok(&w, &m, &c1, now) == Some(true);
                        if verdict.is_ok() && mm.len() == mctx.len() && *via != Via::Batch {
                            if certain {
                                bail!("C09/admin-call/refused-well-formed", "{what}: a ready operation for exactly this call with well-formed credentials was refused: {er}")
                            } else {
                                ctx.class("probe_authorized_but_body_fails");
                            }
                        }
                    }
                }
            }
            Step::CheckAuth { contexts, metas, fit, at } => {
                let mut mctx: Vec<MCtx> = vec![];
                let mut ctx_ops: Vec<Option<usize>> = vec![];
                let mut ctx_calls: Vec<Option<(Symbol, SVec<Val>)>> = vec![];
                let mut sctx: SVec<Context> = SVec::new(&e);
                let mut first_op = None;
                for c in contexts {
                    let (call, k): (Option<AdminCall>, Option<usize>) = match c {
                        CtxSpec::Op(s) => {
                            let k = resolve(s, last, &w, &m);
                            (w.ops[k].call.clone(), Some(k))
                        }
                        CtxSpec::OpTweaked(s) => {
                            let k = resolve(s, last, &w, &m);
                            (w.ops[k].call.as_ref().map(tweak_call), Some(k))
                        }
                        CtxSpec::Free(c) => (Some(c.clone()), (0..POOL).find(|k| w.ops[*k].call.as_ref() == Some(c))),
                        CtxSpec::Foreign | CtxSpec::Create => (None, None),
                    };
                    if first_op.is_none() {
                        first_op = k;
                    }
                    match (&call, c) {
                        (Some(call), _) => {
                            let (f, a) = w.call_inv(call);
                            let a = svec(&e, &a);
                            sctx.push_back(Context::Contract(ContractContext { contract: ctrl.clone(), fn_name: Symbol::new(&e, f), args: a.clone() }));
                            mctx.push(MCtx::Call(call.clone()));
                            ctx_calls.push(Some((Symbol::new(&e, f), a)));
                        }
                        (None, CtxSpec::Create) => {
                            sctx.push_back(Context::CreateContractHostFn(CreateContractHostFnContext {
                                executable: ContractExecutable::Wasm(BytesN::from_array(&e, &[7u8; 32])),
                                salt: BytesN::from_array(&e, &[9u8; 32]),
                            }));
                            mctx.push(MCtx::Foreign);
                            ctx_calls.push(None);
                        }
                        (None, _) => {
                            // a context for another contract: the external op's own call, or Target::bump(1)
                            let (t, f, a) = match k {
                                Some(k) => (w.ops[k].target.clone(), w.ops[k].func.clone(), w.ops[k].args.clone()),
                                None => (w.target.clone(), Symbol::new(&e, "bump"), args![&e; 1u32]),
                            };
                            sctx.push_back(Context::Contract(ContractContext { contract: t, fn_name: f.clone(), args: a.clone() }));
                            mctx.push(MCtx::Foreign);
                            // an executor may well sign for it: the context must be refused regardless
                            ctx_calls.push(Some((f, a)));
                        }
                    }
                    ctx_ops.push(k);
                }
                if let Some(k) = first_op {
                    last = k;
                }
                // move to the latest ready ledger among the referenced operations (+d)
                let latest = ctx_ops.iter().flatten().filter(|k| matches!(m.st[**k], St::Sched(_))).max_by_key(|k| match m.st[**k] {
                    St::Sched(r) => r,
                    _ => 0,
                });
                pre_advance(&w, &m, latest.copied().or(first_op), at);
                let now = envx::seq(&e);
                let metas = &fit_metas(metas, *fit, mctx.len());
                let (sig, mm, entries) = build_metas(&w, &m, last, metas, &ctx_ops, &ctx_calls);
                envx::set_entries(&e, &entries);
                let payload = BytesN::from_array(&e, &[0x42; 32]);
                let r = e.try_invoke_contract_check_auth::<TimelockError>(&ctrl, &payload, sig.to_val(), &sctx);
                envx::no_auth(&e);
                ctx.op(r.is_ok());
                let verdict = model_check_auth(&w, &m, now, &mctx, &mm);
                if mm.len() < mctx.len() {
                    saw_short = true;
                    ctx.class("check_auth_fewer_descriptors_than_contexts");
                }
                if mm.len() > mctx.len() {
                    ctx.class("check_auth_more_descriptors_than_contexts");
                }
                if mctx.iter().any(|c| matches!(c, MCtx::Foreign)) {
                    ctx.class("check_auth_with_foreign_or_create_context");
                }
                if mm.len() == mctx.len() && matches!(verdict, Err((_, Reject::NotReady(_)))) {
                    saw_nonready = true;
                    ctx.class("check_auth_wellformed_on_nonready_op");
                }
                match &r {
                    Ok(()) => {
                        let consumed = match verdict {
                            Ok(c) => c,
                            Err(rej) => return Err(accepted_violation(&w, &m, &what, mctx.len(), mm.len(), &rej)),
                        };
                        if consumed.len() >= 2 {
                            ctx.class("check_auth_accepted_batch_of_2plus");
                        }
                        if !consumed.is_empty() {
                            saw_accept = true;
                            ctx.class("check_auth_accepted");
                        } else {
                            ctx.class("check_auth_accepted_empty_batch");
                        }
                        for k in consumed {
                            m.st[k] = St::Done;
                        }
                    }
                    Err(er) => {
                        ensure!(
                            !(verdict.is_ok() && mm.len() == mctx.len()),
                            "C09/check_auth/refused-well-formed",
                            "{what}: every context is backed by its own descriptor of a ready operation (executor authorized), but __check_auth refused: {:?}",
                            er
                        );
                    }
                }
            }
        }
        compare(&m, &what)?;
        // read-only top-level invocations, after the step's own checks (events of the step were inspected above)
        if sweep {
            getter_sweep(&w, &m, ctx, &mut sw, &what)?;
        }
    }
    if sweep {
        // non-triviality of a getter case: the entry points reported one and the same id in all four states
        let all4 = sw.states.iter().filter(|b| **b == 0b1111).count();
        let union = sw.states.iter().fold(0u8, |a, b| a | b);
        if union == 0b1111 {
            ctx.class("getter_case_all_four_states");
        }
        if all4 > 0 {
            ctx.class("getter_case_id_full_lifecycle");
            ctx.nontrivial = true;
            ctx.class("getter_nontrivial");
        }
        return Ok(());
    }
    // `history` cases: one sweep over the final state (read-only, after every check of the history)
    getter_sweep(&w, &m, ctx, &mut sw, "the last step")?;
    if saw_short && saw_nonready && saw_accept {
        ctx.nontrivial = true;
        ctx.class("nontrivial");
    }
    Ok(())
}

pub fn property() -> Property {
    Property {
        id: "C09",
        rule: "case = (self-administered TimelockController, 1-2 proposers, 0-2 executors, pool of 4 operations (self-administration calls + external target calls, predecessor links), \
               history of <= 30 (thorough 60) schedule_op / cancel_op / execute_op with auth modes, ledger advances, end-to-end admin calls carrying crafted controller credentials \
               (Vec<OperationMeta> of length 0..3, perturbed predecessor/salt/executor, executor entry attached or not, direct / forwarded / batched) and direct __check_auth invocations \
               with arbitrary (context list, descriptor list) pairs); non-trivial = the case contains a payload with fewer descriptors than contexts AND a well-formed payload on a \
               non-ready operation AND an accepted call; distinct = distinct serialised case. \
               Sub-check getters: same generator and interpreter; after set-up and after every step (ledger advances included) every public getter entry point of the example \
               (get_min_delay, hash_operation, and get_operation_state / get_operation_ledger / operation_exists / is_operation_pending / is_operation_ready / is_operation_done \
               for the 4 pool ids and one never-scheduled id) is invoked top-level and compared with the model; non-trivial (getters) = the entry points reported one and the same \
               operation id in all four states Unset, Waiting, Ready and Done during the case. Every history case ends with one such sweep over its final state",
        // (own Gen value instead of gen_sub: more shrink iterations, the histories are long)
        subs: vec![
            Box::new(Gen::<Case> { name: "history", quick: 1500, thorough: 20000, strategy, run, max_shrink_iters: 3000 }),
            // same generator / interpreter + the getter entry points after set-up and after every step (7 x 5 ids + 2 invocations per sweep)
            Box::new(Gen::<Case> { name: "getters", quick: 100, thorough: 3000, strategy, run: run_getters, max_shrink_iters: 3000 }),
        ],
        // <= 1/10 of the class counts measured over seeds 0..5 (quick, repaired tree); thorough = 10x quick
        floors: vec![
            ("nontrivial", 50, 500),
            ("probe_accepted", 60, 600),
            ("probe_accepted_with_executor_entry", 40, 400),
            ("probe_fewer_descriptors_than_contexts", 180, 1800),
            ("probe_wellformed_on_nonready_op", 250, 2500),
            ("probe_defect:executor-without-role", 4, 40),
            ("probe_defect:executor-not-authorized", 4, 40),
            ("check_auth_accepted", 8, 80),
            ("check_auth_fewer_descriptors_than_contexts", 80, 800),
            ("check_auth_with_foreign_or_create_context", 140, 1400),
            ("schedule_ok", 300, 3000),
            ("schedule_by_non_proposer", 150, 1500),
            ("cancel_ok", 40, 400),
            ("cancel_pending_auth_defective", 10, 100),
            ("execute_ok", 40, 400),
            ("execute_ready_without_executor_auth", 12, 120),
            // getter entry points: <= 1/10 of the counts measured over seeds 0..3 (quick); thorough = 8x quick
            ("getter_nontrivial", 55, 440),
            ("getter_case_id_full_lifecycle", 55, 440),
            ("getter_case_all_four_states", 75, 600),
            ("getter_sweep", 6000, 48000),
            ("getter_unknown_id", 6000, 48000),
            ("getter_id_unset", 10000, 80000),
            ("getter_id_waiting", 2200, 17600),
            ("getter_id_ready", 2200, 17600),
            ("getter_id_done", 1300, 10400),
            ("getter_id_ready_at_ready_ledger", 800, 6400),
            ("getter_id_waiting_at_ready_minus_1", 500, 4000),
            ("getter_id_ready_ledger_saturated", 500, 4000),
            ("getter_id_unset_after_cancel", 500, 4000),
            ("getter_min_delay_changed", 250, 2000),
        ],
        assumptions: vec![
            "Soroban native test host (auth-tree matching, __check_auth dispatch, rollback of failed invocations, no re-entry) is trusted",
            "plain actors are accept-all account contracts: 'X authorized' == 'an entry of X with exactly that invocation tree was attached'",
            "after a completed admin transfer to an external account the controller is no longer self-administered; the case ends there",
            "Keccak-256: distinct operation field tuples have distinct ids",
        ],
    }
}

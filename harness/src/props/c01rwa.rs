//! C01, sub-check `rwa`: supply conservation and event replay on the RWA token flavour
//! (harness `RwaTok` over `RWA::*` with permissive compliance / identity mocks): holder transfers,
//! allowance transfers, operator mint / burn / forced transfer / recovery / partial freezes.
//! (Added after seeded change C01r2-m2: a duplicate Transfer event in `recover_balance`.)

use super::c04::rwa_token_setup;
use crate::engine::*;
use crate::envx::{self, call, scval_i128, Ev, Inv};
use crate::gen::pick;
use num_bigint::BigInt;
use proptest::prelude::*;
use serde::{Deserialize, Serialize};
use soroban_sdk::{Address, Val, Vec as SVec};
use stellar_tokens::fungible::Base;

#[derive(Clone, Debug, Serialize, Deserialize)]
pub enum RwOp {
    Mint { to: u16, amt: u16, auth: bool },
    Burn { who: u16, frac: u8, auth: bool },
    Transfer { from: u16, to: u16, frac: u8, auth: bool },
    TransferFrom { spender: u16, from: u16, to: u16, frac: u8 },
    Forced { from: u16, to: u16, frac: u8 },
    Freeze { who: u16, frac: u8 },
    /// set the recovery target of `old` to `new`, then recover
    Recover { old: u16, new: u16, set_target: bool },
    /// amounts the contract must refuse
    BadMint { to: u16, neg: bool },
}
#[derive(Clone, Debug, Serialize, Deserialize)]
pub struct RwCase {
    pub n: u8,
    pub ops: Vec<RwOp>,
}
pub fn strategy(tier: Tier) -> BoxedStrategy<RwCase> {
    let op = prop_oneof![
        5 => (any::<u16>(), 0u16..2000, proptest::bool::weighted(0.9)).prop_map(|(to, amt, auth)| RwOp::Mint { to, amt, auth }),
        3 => (any::<u16>(), 0u8..=5, proptest::bool::weighted(0.9)).prop_map(|(who, frac, auth)| RwOp::Burn { who, frac, auth }),
        6 => (any::<u16>(), any::<u16>(), 0u8..=5, proptest::bool::weighted(0.9)).prop_map(|(from, to, frac, auth)| RwOp::Transfer { from, to, frac, auth }),
        3 => (any::<u16>(), any::<u16>(), any::<u16>(), 0u8..=5).prop_map(|(spender, from, to, frac)| RwOp::TransferFrom { spender, from, to, frac }),
        3 => (any::<u16>(), any::<u16>(), 0u8..=5).prop_map(|(from, to, frac)| RwOp::Forced { from, to, frac }),
        2 => (any::<u16>(), 0u8..=4).prop_map(|(who, frac)| RwOp::Freeze { who, frac }),
        4 => (any::<u16>(), any::<u16>(), proptest::bool::weighted(0.85)).prop_map(|(old, new, set_target)| RwOp::Recover { old, new, set_target }),
        1 => (any::<u16>(), any::<bool>()).prop_map(|(to, neg)| RwOp::BadMint { to, neg }),
    ];
    (2u8..=4, proptest::collection::vec(op, 1..tier.pick(35usize, 70usize))).prop_map(|(n, ops)| RwCase { n, ops }).boxed()
}

fn ev_amount(ev: &Ev) -> Option<i128> {
    ev.data_field("amount").and_then(|v| scval_i128(&v)).or_else(|| scval_i128(&ev.data))
}

pub fn run(case: &RwCase, ctx: &mut Ctx) -> R {
    let e = envx::new_env(100, envx::BIG_TTL);
    let admin = envx::actor(&e);
    let n = case.n as usize;
    let accts = envx::actors(&e, n);
    let su = rwa_token_setup(&e, &admin, false).map_err(|er| violation("C01/rwa/setup", er))?;
    let tok = su.token.clone();
    let dump = |e: &soroban_sdk::Env| -> (i128, Vec<i128>) {
        e.as_contract(&tok, || (Base::total_supply(e), accts.iter().map(|a| Base::balance(e, a)).collect()))
    };
    let invoke = |func: &str, args: SVec<Val>, signer: Option<&Address>| -> (Result<Val, String>, Vec<Ev>) {
        match signer {
            Some(s) => envx::set_auth(&e, &[(s, &Inv::new(&tok, func, args.clone()))]),
            None => envx::no_auth(&e),
        }
        let r = call(&e, &tok, func, args);
        let evs = if r.is_ok() { envx::events_of(&e, &tok) } else { vec![] };
        envx::no_auth(&e);
        (r, evs)
    };
    let mut replay: Vec<BigInt> = vec![BigInt::from(0); n];
    let (mut supply, mut bal) = dump(&e);
    let (mut ok_supply, mut ok_move, mut failed, mut ok_recover) = (false, false, false, false);
    let idx = |a: &Address| accts.iter().position(|x| x == a);

    for (step, op) in case.ops.iter().enumerate() {
        let what = format!("step {step} {:?}", op);
        // (result, events, expected supply delta if ok, expected supply-events if ok)
        #[derive(Debug, PartialEq)]
        enum Want {
            Mint(usize, i128),
            Burn(usize, i128),
            Transfer(usize, usize, i128),
            None,
        }
        let (r, evs, want): (Result<Val, String>, Vec<Ev>, Want) = match op {
            RwOp::Mint { to, amt, auth } => {
                let t = pick(*to, n);
                let a = *amt as i128;
                let args: SVec<Val> = args![&e; accts[t].clone(), a, admin.clone()];
                let (r, evs) = invoke("mint", args, if *auth { Some(&admin) } else { None });
                (r, evs, Want::Mint(t, a))
            }
            RwOp::BadMint { to, neg } => {
                let t = pick(*to, n);
                if !*neg && supply == 0 {
                    continue;
                }
                let a = if *neg { -1i128 } else { i128::MAX - supply + 1 };
                ctx.class("rwa_overflow_or_negative_mint");
                let args: SVec<Val> = args![&e; accts[t].clone(), a, admin.clone()];
                let (r, evs) = invoke("mint", args, Some(&admin));
                (r, evs, Want::Mint(t, a))
            }
            RwOp::Burn { who, frac, auth } => {
                let w = pick(*who, n);
                let a = bal[w] / 4 * (*frac as i128);
                let args: SVec<Val> = args![&e; accts[w].clone(), a, admin.clone()];
                let (r, evs) = invoke("burn", args, if *auth { Some(&admin) } else { None });
                (r, evs, Want::Burn(w, a))
            }
            RwOp::Transfer { from, to, frac, auth } => {
                let f = pick(*from, n);
                let t = pick(*to, n);
                let a = bal[f] / 4 * (*frac as i128);
                let args: SVec<Val> = args![&e; accts[f].clone(), accts[t].clone(), a];
                let (r, evs) = invoke("transfer", args, if *auth { Some(&accts[f]) } else { None });
                (r, evs, Want::Transfer(f, t, a))
            }
            RwOp::TransferFrom { spender, from, to, frac } => {
                let s = pick(*spender, n);
                let f = pick(*from, n);
                let t = pick(*to, n);
                let a = bal[f] / 4 * (*frac as i128);
                let live = envx::seq(&e) + 50;
                let aa: SVec<Val> = args![&e; accts[f].clone(), accts[s].clone(), a, live];
                let _ = invoke("approve", aa, Some(&accts[f]));
                let args: SVec<Val> = args![&e; accts[s].clone(), accts[f].clone(), accts[t].clone(), a];
                let (r, evs) = invoke("transfer_from", args, Some(&accts[s]));
                (r, evs, Want::Transfer(f, t, a))
            }
            RwOp::Forced { from, to, frac } => {
                let f = pick(*from, n);
                let t = pick(*to, n);
                let a = bal[f] / 4 * (*frac as i128);
                let args: SVec<Val> = args![&e; accts[f].clone(), accts[t].clone(), a, admin.clone()];
                let (r, evs) = invoke("forced_transfer", args, Some(&admin));
                (r, evs, Want::Transfer(f, t, a))
            }
            RwOp::Freeze { who, frac } => {
                let w = pick(*who, n);
                let a = bal[w] / 4 * (*frac as i128);
                let args: SVec<Val> = args![&e; accts[w].clone(), a, admin.clone()];
                let (r, evs) = invoke("freeze_partial_tokens", args, Some(&admin));
                (r, evs, Want::None)
            }
            RwOp::Recover { old, new, set_target } => {
                let o = pick(*old, n);
                let mut nw = pick(*new, n);
                if nw == o {
                    nw = (o + 1) % n;
                }
                if *set_target {
                    envx::no_auth(&e);
                    let tv: Option<Address> = Some(accts[nw].clone());
                    let _ = call(&e, &su.idv, "set_recovery_target", args![&e; accts[o].clone(), tv]);
                }
                let args: SVec<Val> = args![&e; accts[o].clone(), accts[nw].clone(), admin.clone()];
                let (r, evs) = invoke("recover_balance", args, Some(&admin));
                // a successful recovery of a non-zero balance moves the WHOLE balance old -> new
                let moved = bal[o];
                let want = if moved > 0 { Want::Transfer(o, nw, moved) } else { Want::None };
                (r, evs, want)
            }
        };
        let (s2, b2) = dump(&e);
        ctx.op(r.is_ok());
        // decode the supply events of this call
        let mut got: Vec<Want> = vec![];
        for ev in &evs {
            match ev.topic_sym(0).as_deref() {
                Some("mint") => {
                    let (Some(t), Some(a)) = (ev.topic_addr(&e, 1).and_then(|x| idx(&x)), ev_amount(ev)) else { bail!("C01/rwa/malformed-event", "{what}: mint event {:?}", ev) };
                    got.push(Want::Mint(t, a));
                }
                Some("burn") => {
                    let (Some(f), Some(a)) = (ev.topic_addr(&e, 1).and_then(|x| idx(&x)), ev_amount(ev)) else { bail!("C01/rwa/malformed-event", "{what}: burn event {:?}", ev) };
                    got.push(Want::Burn(f, a));
                }
                Some("transfer") => {
                    let (Some(f), Some(t), Some(a)) =
                        (ev.topic_addr(&e, 1).and_then(|x| idx(&x)), ev.topic_addr(&e, 2).and_then(|x| idx(&x)), ev_amount(ev))
                    else {
                        bail!("C01/rwa/malformed-event", "{what}: transfer event {:?}", ev)
                    };
                    got.push(Want::Transfer(f, t, a));
                }
                _ => {}
            }
        }
        match &r {
            Err(_) => {
                failed = true;
                ensure!(s2 == supply && b2 == bal, "C01/rwa/failed-call-changed-state", "{what}: failed but supply/balances changed: {supply} {:?} -> {s2} {:?}", bal, b2);
            }
            Ok(ret) => {
                // recover_balance returns false (and does nothing) for a zero balance
                let recovered_nothing = matches!(op, RwOp::Recover { .. }) && bool::try_from_val(&e, ret).map(|b| !b).unwrap_or(false);
                let want_evs: Vec<Want> = if recovered_nothing || want == Want::None { vec![] } else { vec![want] };
                let delta = BigInt::from(s2) - BigInt::from(supply);
                let want_delta = match want_evs.first() {
                    Some(Want::Mint(_, a)) => BigInt::from(*a),
                    Some(Want::Burn(_, a)) => -BigInt::from(*a),
                    _ => BigInt::from(0),
                };
                ensure!(delta == want_delta, "C01/rwa/supply-delta", "{what}: supply moved by {delta}, expected {want_delta}");
                ensure!(got == want_evs, "C01/rwa/wrong-events", "{what}: emitted supply events {:?}, expected {:?}", got, want_evs);
                for g in &got {
                    match g {
                        Want::Mint(t, a) => {
                            replay[*t] += BigInt::from(*a);
                            ok_supply = true;
                        }
                        Want::Burn(f, a) => {
                            replay[*f] -= BigInt::from(*a);
                            ok_supply = true;
                        }
                        Want::Transfer(f, t, a) => {
                            replay[*f] -= BigInt::from(*a);
                            replay[*t] += BigInt::from(*a);
                            ok_move = true;
                            if matches!(op, RwOp::Recover { .. }) {
                                ok_recover = true;
                                ctx.class("rwa_recovery_ok");
                            }
                        }
                        Want::None => {}
                    }
                }
            }
        }
        let sum: BigInt = b2.iter().map(|x| BigInt::from(*x)).sum();
        ensure!(sum == BigInt::from(s2), "C01/rwa/supply-ne-sum", "{what}: total_supply {s2} != sum of balances {:?}", b2);
        for (i, b) in b2.iter().enumerate() {
            ensure!(*b >= 0, "C01/rwa/negative-balance", "{what}: balance[{i}] = {b}");
            ensure!(replay[i] == BigInt::from(*b), "C01/rwa/event-replay-mismatch", "{what}: replaying mint/burn/transfer events gives balance[{i}] = {} but the token reports {b}", replay[i]);
        }
        supply = s2;
        bal = b2;
    }
    let _ = ok_recover;
    if ok_supply && ok_move && failed {
        ctx.nontrivial = true;
        ctx.class("nontrivial");
        ctx.class("nontrivial_rwa");
    }
    Ok(())
}

use soroban_sdk::TryFromVal;

//! C15 supplement — the documented claim-data expiration codec of the claim-issuer helpers
//! (`encode_claim_data_expiration` / `decode_claim_data_expiration` / `is_claim_expired`).
//! The identity history (c15.rs) builds claim data with its OWN encoder, so the library's encoder was never executed;
//! here the three helpers are compared with the documented format
//!     created_at (8 bytes BE) || valid_until (8 bytes BE) || claim_data,
//! `encode` refusing valid_until <= created_at, `decode` refusing fewer than 16 bytes, and
//! `is_claim_expired` == (ledger timestamp >= valid_until), at timestamps around valid_until.
use crate::engine::*;
use crate::envx;
use proptest::prelude::*;
use serde::{Deserialize, Serialize};
use soroban_sdk::{testutils::Ledger as _, Bytes};
use std::panic::{catch_unwind, AssertUnwindSafe};
use stellar_tokens::rwa::claim_issuer::{decode_claim_data_expiration, encode_claim_data_expiration, is_claim_expired};

#[derive(Clone, Debug, Serialize, Deserialize)]
pub struct Case {
    pub created_at: u64,
    pub valid_until: u64,
    pub payload: Vec<u8>,
    /// raw bytes shown to the decoder as they are (any length, also < 16)
    pub raw: Vec<u8>,
    /// ledger timestamps relative to valid_until at which expiry is asked
    pub offsets: Vec<i8>,
}

fn u64_edge() -> BoxedStrategy<u64> {
    prop_oneof![
        3 => any::<u64>(),
        3 => 0u64..5_000,
        1 => Just(0u64),
        1 => Just(u64::MAX),
        1 => Just(u64::MAX - 1),
        1 => (0u32..64).prop_map(|b| 1u64 << b),
    ]
    .boxed()
}

pub fn strategy(_tier: Tier) -> BoxedStrategy<Case> {
    (
        u64_edge(),
        u64_edge(),
        any::<u8>(),
        proptest::collection::vec(any::<u8>(), 0..40),
        proptest::collection::vec(any::<u8>(), 0..40),
        proptest::collection::vec(-2i8..=2, 1..5),
    )
        .prop_map(|(created_at, v, rel, payload, raw, offsets)| {
            // half of the cases sit right at the created_at / valid_until boundary
            let valid_until = match rel % 6 {
                0 => created_at,
                1 => created_at.saturating_add(1),
                2 => created_at.saturating_sub(1),
                _ => v,
            };
            Case { created_at, valid_until, payload, raw, offsets }
        })
        .boxed()
}

pub fn run(case: &Case, ctx: &mut Ctx) -> R {
    let e = envx::new_env(100, envx::BIG_TTL);
    let host = envx::actor(&e); // some contract frame for the helpers' error reporting
    let payload = Bytes::from_slice(&e, &case.payload);
    // ---- encode
    let enc = catch_unwind(AssertUnwindSafe(|| e.as_contract(&host, || encode_claim_data_expiration(&e, case.created_at, case.valid_until, &payload))));
    let mut want = case.created_at.to_be_bytes().to_vec();
    want.extend_from_slice(&case.valid_until.to_be_bytes());
    want.extend_from_slice(&case.payload);
    ctx.op(enc.is_ok());
    if case.valid_until <= case.created_at {
        ensure!(enc.is_err(), "C15/encode_claim_data_expiration/accepted-nonpositive-validity", "created_at {} valid_until {}: documented refusal, got {:?}", case.created_at, case.valid_until, enc.ok().map(|b| b.len()));
        ctx.class("codec_encode_refused");
    } else {
        let got: Option<Vec<u8>> = enc.ok().map(|b| b.iter().collect());
        ensure!(got.as_deref() == Some(&want[..]), "C15/encode_claim_data_expiration/wrong-bytes", "created_at {} valid_until {} payload {:02x?}: got {:02x?}, documented layout {:02x?}", case.created_at, case.valid_until, case.payload, got, want);
        ctx.class("codec_encode_ok");
    }
    // ---- decode (of the documented layout, whatever the encoder thinks of the pair, and of raw bytes)
    for (tag, bytes) in [("layout", &want), ("raw", &case.raw)] {
        let b = Bytes::from_slice(&e, bytes);
        let dec = catch_unwind(AssertUnwindSafe(|| e.as_contract(&host, || decode_claim_data_expiration(&e, &b))));
        ctx.op(dec.is_ok());
        if bytes.len() < 16 {
            ensure!(dec.is_err(), "C15/decode_claim_data_expiration/accepted-short-data", "{tag} {:02x?} ({} bytes): documented refusal", bytes, bytes.len());
            ctx.class("codec_decode_refused_short");
            let ex = catch_unwind(AssertUnwindSafe(|| e.as_contract(&host, || is_claim_expired(&e, &b))));
            ensure!(ex.is_err(), "C15/is_claim_expired/answered-for-short-data", "{tag} {:02x?}: {:?}", bytes, ex.ok());
            continue;
        }
        let c = u64::from_be_bytes(bytes[..8].try_into().unwrap());
        let v = u64::from_be_bytes(bytes[8..16].try_into().unwrap());
        let got = dec.ok().map(|(c, v, d)| (c, v, d.iter().collect::<Vec<u8>>()));
        ensure!(got == Some((c, v, bytes[16..].to_vec())), "C15/decode_claim_data_expiration/wrong-fields", "{tag} {:02x?}: got {:?}", bytes, got);
        ctx.class("codec_decode_ok");
        // ---- expiry around valid_until
        for off in &case.offsets {
            let ts = if *off >= 0 { v.saturating_add(*off as u64) } else { v.saturating_sub((-*off) as u64) };
            e.ledger().set_timestamp(ts);
            let ex = catch_unwind(AssertUnwindSafe(|| e.as_contract(&host, || is_claim_expired(&e, &b))));
            ensure!(ex.as_ref().ok() == Some(&(ts >= v)), "C15/is_claim_expired/wrong-answer", "{tag}: valid_until {v}, ledger timestamp {ts}: {:?}, documented {}", ex.ok(), ts >= v);
            ctx.class(if ts >= v { "codec_expired" } else { "codec_live" });
            if ts == v {
                ctx.class("codec_expiry_at_boundary");
            }
        }
    }
    ctx.nontrivial = true;
    Ok(())
}

pub const FLOORS: &[(&str, u64, u64)] = &[
    ("codec_encode_ok", 300, 3000),
    ("codec_encode_refused", 300, 3000),
    ("codec_decode_ok", 600, 6000),
    ("codec_decode_refused_short", 200, 2000),
    ("codec_expiry_at_boundary", 300, 3000),
    ("codec_live", 200, 2000),
];

//! C19 — Fee forwarding charges at most the authorized fee for the authorized call only.
//!
//! Targets: `examples/fee-forwarder-permissionless` (eager approval, relayer collects) and
//! `examples/fee-forwarder-permissioned` (lazy approval, forwarder collects, allow-list managed by
//! `manager`, relayer needs the `executor` role).  Fee tokens: 2 x library `FtBase` + 1 Stellar
//! Asset Contract.  Collaborators: two `Target` instances (append-only call log, scripted
//! failure, optional `who.require_auth()`), a read-only `Probe`.
//!
//! Every forward is submitted with EXPLICIT authorization entries (never `mock_all_auths`):
//!   user    : root  forwarder.forward(token, max, exp, target, fn, args)   [require_auth_for_args]
//!               sub  token.approve(user, forwarder, max, exp)
//!               sub  target.fn(args)                     (only when the target asks for the user)
//!   relayer : root  forwarder.forward(<all nine arguments>)
//! and the adversarial modes are derived from that tree.

use crate::contracts::c19::{
    probe::Probe,
    target::{CallRec, Target},
};
use crate::contracts::ft::ft_base::FtBase;
use crate::engine::*;
use crate::envx::{self, call, Inv};
use crate::examples::fee_forwarder_permissioned::contract::FeeForwarder as Permissioned;
use crate::examples::fee_forwarder_permissionless::contract::FeeForwarder as Permissionless;
use crate::gen::pick;
use proptest::prelude::*;
use serde::{Deserialize, Serialize};
use soroban_sdk::token::StellarAssetClient;
use soroban_sdk::xdr::ScVal;
use soroban_sdk::{Address, Env, IntoVal, Symbol, TryFromVal, Val, Vec as SVec};
use std::collections::BTreeSet;
use std::panic::{catch_unwind, AssertUnwindSafe};
use stellar_fee_abstraction::{is_allowed_fee_token, FeeAbstractionStorageKey};
use stellar_tokens::fungible::Base;

// ------------------------------------------------------------------ case data

#[derive(Clone, Copy, Debug, Serialize, Deserialize, PartialEq, Eq)]
pub enum Flavour {
    Permissionless,
    Permissioned,
}
impl Flavour {
    fn eager(self) -> bool {
        matches!(self, Flavour::Permissionless)
    }
}

#[derive(Clone, Debug, Serialize, Deserialize)]
pub enum MaxSel {
    Abs(#[serde(with = "crate::gen::i128_str")] i128),
    /// user's balance of the fee token + d
    BalPlus(i8),
}
#[derive(Clone, Debug, Serialize, Deserialize)]
pub enum FeeSel {
    /// max + d
    MaxPlus(i8),
    Abs(#[serde(with = "crate::gen::i128_str")] i128),
    /// max / 2
    Half,
    /// current allowance(user, forwarder) + d
    AllowPlus(i8),
}
#[derive(Clone, Debug, Serialize, Deserialize)]
pub enum ExpSel {
    /// current ledger + d
    Rel(i32),
    Abs(u32),
}
/// allowance(user -> forwarder) installed by the user right before the forward
#[derive(Clone, Debug, Serialize, Deserialize)]
pub enum PreAllow {
    Keep,
    /// approve(max + d), live for 100 ledgers
    MaxPlus(i8),
}
#[derive(Clone, Debug, Serialize, Deserialize)]
pub enum UserSel {
    User(u16),
    /// the forwarder contract itself is named as the user (documented: InvalidUser)
    Forwarder,
}
#[derive(Clone, Debug, Serialize, Deserialize)]
pub enum RelSel {
    /// one of the two relayers (they hold the `executor` role in the permissioned flavour)
    Executor(u16),
    /// an actor without any role, authorizing correctly
    Stranger,
}
#[derive(Clone, Copy, Debug, Serialize, Deserialize, PartialEq, Eq)]
pub enum TFn {
    Ping,
    /// requires the user's authorization inside the target
    Guarded,
    /// records, then always fails
    Boom,
    /// entry point that does not exist
    Missing,
}
#[derive(Clone, Debug, Serialize, Deserialize)]
pub struct Tgt {
    pub second: bool,
    pub f: TFn,
    pub x: i16,
    pub y: u8,
}
#[derive(Clone, Copy, Debug, Serialize, Deserialize, PartialEq, Eq)]
pub enum Field {
    Token,
    Max,
    Exp,
    Target,
    Fn,
    Args,
}
impl Field {
    fn idx(self) -> usize {
        match self {
            Field::Token => 0,
            Field::Max => 1,
            Field::Exp => 2,
            Field::Target => 3,
            Field::Fn => 4,
            Field::Args => 5,
        }
    }
    fn name(self) -> &'static str {
        match self {
            Field::Token => "token",
            Field::Max => "max-fee",
            Field::Exp => "expiration",
            Field::Target => "target",
            Field::Fn => "fn",
            Field::Args => "args",
        }
    }
}
#[derive(Clone, Debug, Serialize, Deserialize, PartialEq, Eq)]
pub enum FAuth {
    Exact,
    /// Exact plus an unrelated entry of an uninvolved actor
    Surplus,
    /// the user's root entry differs in one of the six authorized arguments
    /// (variant 0/1: value changed, 2: argument omitted from the tuple)
    TamperUser(Field, u8),
    /// no entry of the user at all
    DropUser,
    /// the exact tree, but signed by the other user
    SwapUser,
    /// the user's entry lacks the `approve` sub-invocation
    DropApprove,
    /// the `approve` sub-invocation differs (0: amount+1, 1: amount-1, 2: expiration+1, 3: other spender)
    TamperApprove(u8),
    /// the user's entry lacks the target sub-invocation (matters for `guarded`)
    DropTargetSub,
    /// the target sub-invocation authorizes other arguments
    TamperTargetSub,
    /// no entry of the relayer
    DropRelayer,
    /// relayer's entry differs (0: fee+1, 1: other user, 2: other relayer argument)
    TamperRelayer(u8),
    /// the relayer's invocation is signed by somebody else
    SwapRelayer,
}

#[derive(Clone, Debug, Serialize, Deserialize)]
pub enum TokSel {
    Any(u16),
    /// a token the allow-list currently accepts / refuses (falls back to Any)
    Accepted(u16),
    Refused(u16),
}

#[derive(Clone, Debug, Serialize, Deserialize)]
pub struct Fwd {
    pub tok: TokSel,
    pub user: UserSel,
    pub relayer: RelSel,
    pub max: MaxSel,
    pub fee: FeeSel,
    pub exp: ExpSel,
    pub pre: PreAllow,
    pub tgt: Tgt,
    pub auth: FAuth,
}

#[derive(Clone, Debug, Serialize, Deserialize)]
pub enum ListSel {
    /// any of the five candidates
    Cand(u16),
    /// i-th current member (model order)
    Member(u16),
    /// i-th current non-member
    NonMember(u16),
    /// the token stored in enumeration slot 0 / count-1 (selector only, never asserted)
    First,
    Last,
}

#[derive(Clone, Debug, Serialize, Deserialize)]
pub enum Op {
    Forward(Fwd),
    /// permissioned only: enable_fee_token / disable_fee_token
    List { sel: ListSel, on: bool, by_manager: bool, with_auth: bool },
    /// permissioned only: manager sweeps the collected fees of one token
    Sweep { tok: u16 },
    /// (un)script the failure flag of a target
    Script { second: bool, fail: bool },
    Advance { k: u32 },
}

#[derive(Clone, Debug, Serialize, Deserialize)]
pub struct Case {
    pub flavour: Flavour,
    pub seq: u32,
    /// permissioned: initial allow-list (bit i = candidate i), installed by the manager in set-up
    pub init_list: u8,
    pub ops: Vec<Op>,
}

// ------------------------------------------------------------------ strategies

fn fwd_strategy() -> BoxedStrategy<Fwd> {
    let user = prop_oneof![ 48 => any::<u16>().prop_map(UserSel::User), 2 => Just(UserSel::Forwarder) ];
    let relayer = prop_oneof![ 11 => any::<u16>().prop_map(RelSel::Executor), 1 => Just(RelSel::Stranger) ];
    let max = prop_oneof![
        10 => (2i128..=1000).prop_map(MaxSel::Abs),
        2 => (1i128..=2).prop_map(MaxSel::Abs),
        2 => crate::gen::amount_any().prop_map(MaxSel::Abs),
        3 => (-1i8..=1).prop_map(MaxSel::BalPlus),
        1 => Just(MaxSel::Abs(0)),
    ];
    let fee = prop_oneof![
        14 => Just(FeeSel::MaxPlus(0)),
        9 => Just(FeeSel::MaxPlus(-1)),
        3 => Just(FeeSel::MaxPlus(1)),
        6 => Just(FeeSel::Abs(1)),
        6 => Just(FeeSel::Half),
        1 => Just(FeeSel::Abs(0)),
        1 => Just(FeeSel::Abs(-1)),
        1 => crate::gen::amount_any().prop_map(FeeSel::Abs),
        1 => (2i8..=5).prop_map(FeeSel::MaxPlus),
        2 => (-1i8..=1).prop_map(FeeSel::AllowPlus),
    ];
    let exp = prop_oneof![
        10 => Just(ExpSel::Rel(0)),
        24 => (1i32..=50).prop_map(ExpSel::Rel),
        3 => Just(ExpSel::Rel(-1)),
        1 => (-6i32..-1).prop_map(ExpSel::Rel),
        1 => prop_oneof![Just(0u32), Just(u32::MAX), Just(1u32)].prop_map(ExpSel::Abs),
        1 => (5000i32..100_000).prop_map(ExpSel::Rel),
    ];
    let pre = prop_oneof![
        11 => Just(PreAllow::Keep),
        3 => Just(PreAllow::MaxPlus(0)),
        3 => (1i8..=3).prop_map(PreAllow::MaxPlus),
        3 => (-3i8..=-1).prop_map(PreAllow::MaxPlus),
    ];
    let tfn = prop_oneof![ 14 => Just(TFn::Ping), 7 => Just(TFn::Guarded), 2 => Just(TFn::Boom), 1 => Just(TFn::Missing) ];
    let tgt = (proptest::bool::weighted(0.25), tfn, -3i16..=40, 0u8..=9).prop_map(|(second, f, x, y)| Tgt { second, f, x, y });
    let field = prop_oneof![
        Just(Field::Token),
        Just(Field::Max),
        Just(Field::Exp),
        Just(Field::Target),
        Just(Field::Fn),
        Just(Field::Args)
    ];
    let auth = prop_oneof![
        80 => Just(FAuth::Exact),
        3 => Just(FAuth::Surplus),
        18 => (field, 0u8..3).prop_map(|(f, v)| FAuth::TamperUser(f, v)),
        2 => Just(FAuth::DropUser),
        2 => Just(FAuth::SwapUser),
        4 => Just(FAuth::DropApprove),
        3 => (0u8..4).prop_map(FAuth::TamperApprove),
        3 => Just(FAuth::DropTargetSub),
        2 => Just(FAuth::TamperTargetSub),
        3 => Just(FAuth::DropRelayer),
        3 => (0u8..3).prop_map(FAuth::TamperRelayer),
        2 => Just(FAuth::SwapRelayer),
    ];
    let tok = prop_oneof![
        2 => any::<u16>().prop_map(TokSel::Any),
        8 => any::<u16>().prop_map(TokSel::Accepted),
        1 => any::<u16>().prop_map(TokSel::Refused),
    ];
    (tok, user, relayer, max, fee, exp, pre, tgt, auth)
        .prop_map(|(tok, user, relayer, max, fee, exp, pre, tgt, auth)| Fwd { tok, user, relayer, max, fee, exp, pre, tgt, auth })
        .boxed()
}

fn op_strategy(fl: Flavour) -> BoxedStrategy<Op> {
    let list_sel = prop_oneof![
        3 => any::<u16>().prop_map(ListSel::Cand),
        3 => any::<u16>().prop_map(ListSel::Member),
        3 => any::<u16>().prop_map(ListSel::NonMember),
        2 => Just(ListSel::First),
        2 => Just(ListSel::Last),
    ];
    let list = (list_sel, any::<bool>(), proptest::bool::weighted(0.9), proptest::bool::weighted(0.9))
        .prop_map(|(sel, on, by_manager, with_auth)| Op::List { sel, on, by_manager, with_auth });
    let adv = prop_oneof![ 3 => 0u32..=2, 2 => 3u32..=60, 1 => Just(101u32), 1 => 4000u32..=5000 ].prop_map(|k| Op::Advance { k });
    let script = (proptest::bool::weighted(0.3), proptest::bool::weighted(0.3)).prop_map(|(second, fail)| Op::Script { second, fail });
    let permd = fl == Flavour::Permissioned;
    prop_oneof![
        60 => fwd_strategy().prop_map(Op::Forward),
        if permd { 24 } else { 0 } => list,
        if permd { 3 } else { 0 } => any::<u16>().prop_map(|tok| Op::Sweep { tok }),
        2 => script,
        8 => adv,
    ]
    .boxed()
}

fn case_strategy(fl: Flavour, tier: Tier) -> BoxedStrategy<Case> {
    let max_ops = tier.pick(34usize, 50usize);
    let init = prop_oneof![ 2 => Just(0u8), 3 => 0u8..32 ];
    (100u32..5000, init, proptest::collection::vec(op_strategy(fl), 10..max_ops))
        .prop_map(move |(seq, init_list, ops)| Case { flavour: fl, seq, init_list: if fl == Flavour::Permissioned { init_list } else { 0 }, ops })
        .boxed()
}
fn strat_permissionless(tier: Tier) -> BoxedStrategy<Case> {
    case_strategy(Flavour::Permissionless, tier)
}
fn strat_permissioned(tier: Tier) -> BoxedStrategy<Case> {
    case_strategy(Flavour::Permissioned, tier)
}

// ------------------------------------------------------------------ world

const N_TOK: usize = 3;
const N_CAND: usize = 5;
// holder indices
const H_USER0: usize = 0;
const H_REL0: usize = 2;
const H_STRANGER: usize = 4;
const H_FWD: usize = 5;
// pair indices: (user i -> forwarder) = i

type Log = Vec<(String, Vec<ScVal>)>;

#[derive(Clone, Debug, PartialEq)]
struct Dump {
    /// bal[token][holder]
    bal: Vec<Vec<i128>>,
    /// alw[token][pair]
    alw: Vec<Vec<i128>>,
    logs: [Log; 2],
}

struct World {
    e: Env,
    fl: Flavour,
    fwd: Address,
    toks: Vec<Address>,
    users: Vec<Address>,
    relayers: Vec<Address>,
    stranger: Address,
    manager: Address,
    sink: Address,
    targets: Vec<Address>,
    probe: Address,
    /// allow-list candidates: the three tokens + two plain addresses
    cands: Vec<Address>,
    holders: Vec<Address>,
    pairs: Vec<(Address, Address)>,
}

fn setup_err(what: &str, er: impl std::fmt::Debug) -> Violation {
    violation("C19/setup/failed", format!("{what}: {er:?}"))
}

impl World {
    fn setup(case: &Case) -> Result<World, Violation> {
        let e = envx::new_env(case.seq, envx::BIG_TTL);
        let admin = envx::actor(&e);
        let manager = envx::actor(&e);
        let users = envx::actors(&e, 2);
        let relayers = envx::actors(&e, 2);
        let stranger = envx::actor(&e);
        let sink = envx::actor(&e);
        let dummies = envx::actors(&e, 2);
        let fwd = match case.flavour {
            Flavour::Permissionless => e.register(Permissionless, ()),
            Flavour::Permissioned => {
                let mut ex = SVec::new(&e);
                for r in &relayers {
                    ex.push_back(r.clone());
                }
                e.register(Permissioned, (admin.clone(), manager.clone(), ex))
            }
        };
        let t0 = e.register(FtBase, (admin.clone(),));
        let t1 = e.register(FtBase, (admin.clone(),));
        let sac = e.register_stellar_asset_contract_v2(admin.clone()).address();
        let toks = vec![t0, t1, sac];
        let targets = vec![e.register(Target, ()), e.register(Target, ())];
        let probe = e.register(Probe, ());

        // funding (set-up only: mock auth, switched off below)
        e.mock_all_auths();
        let big: [i128; 3] = [1_000_000_000_000_000_000_000_000_000_000, 5_000, 1i128 << 70];
        for (ti, t) in toks.iter().enumerate() {
            let grants: Vec<(&Address, i128)> = vec![(&users[0], 1_000_000), (&users[1], big[ti]), (&relayers[0], 500), (&fwd, 77 * ti as i128)];
            for (to, amt) in grants {
                if amt == 0 {
                    continue;
                }
                if ti == 2 {
                    let r = StellarAssetClient::new(&e, t).try_mint(to, &amt);
                    if !matches!(r, Ok(Ok(()))) {
                        return Err(setup_err("SAC mint", r));
                    }
                } else {
                    call(&e, t, "mint", args![&e; to.clone(), amt]).map_err(|er| setup_err("mint", er))?;
                }
            }
        }
        let mut cands = toks.clone();
        cands.extend(dummies.iter().cloned());
        if case.flavour == Flavour::Permissioned {
            for (i, c) in cands.iter().enumerate() {
                if case.init_list & (1 << i) != 0 {
                    call(&e, &fwd, "enable_fee_token", args![&e; c.clone(), manager.clone()]).map_err(|er| setup_err("initial enable_fee_token", er))?;
                }
            }
        }
        envx::no_auth(&e);

        let holders = vec![
            users[0].clone(),
            users[1].clone(),
            relayers[0].clone(),
            relayers[1].clone(),
            stranger.clone(),
            fwd.clone(),
            sink.clone(),
            targets[0].clone(),
        ];
        let pairs = vec![
            (users[0].clone(), fwd.clone()),
            (users[1].clone(), fwd.clone()),
            (users[0].clone(), relayers[0].clone()),
            (users[1].clone(), relayers[1].clone()),
            (users[0].clone(), stranger.clone()),
        ];
        Ok(World { e, fl: case.flavour, fwd, toks, users, relayers, stranger, manager, sink, targets, probe, cands, holders, pairs })
    }

    /// call log of target `i` (harness contract: its instance entry is read directly)
    fn read_log(&self, i: usize) -> Result<Log, Violation> {
        let e = &self.e;
        let v: SVec<CallRec> = e.as_contract(&self.targets[i], || e.storage().instance().get(&soroban_sdk::symbol_short!("LOG")).unwrap_or(SVec::new(e)));
        let mut out = vec![];
        for rec in v.iter() {
            let f = match ScVal::try_from_val(e, &rec.func.to_val()) {
                Ok(ScVal::Symbol(s)) => s.0.to_utf8_string_lossy(),
                other => format!("{other:?}"),
            };
            let mut a = vec![];
            for x in rec.args.iter() {
                a.push(ScVal::try_from_val(e, &x).map_err(|_| violation("C19/observe/target-log-failed", "argument conversion"))?);
            }
            out.push((f, a));
        }
        Ok(out)
    }

    /// Balances and allowances of every holder / pair on all three tokens plus both target logs.
    /// Library tokens: the library's own getters inside `as_contract` (what their `balance` /
    /// `allowance` entry points forward to); SAC: its public entry points through the probe.
    fn dump(&self) -> Result<Dump, Violation> {
        let e = &self.e;
        let mut bal: Vec<Vec<i128>> = vec![];
        let mut alw: Vec<Vec<i128>> = vec![];
        for t in &self.toks[..2] {
            let (b, a) = e.as_contract(t, || {
                let b: Vec<i128> = self.holders.iter().map(|h| Base::balance(e, h)).collect();
                let a: Vec<i128> = self.pairs.iter().map(|(o, s)| Base::allowance(e, o, s)).collect();
                (b, a)
            });
            bal.push(b);
            alw.push(a);
        }
        let mut toks = SVec::new(e);
        toks.push_back(self.toks[2].clone());
        let mut hs = SVec::new(e);
        for h in &self.holders {
            hs.push_back(h.clone());
        }
        let mut ps: SVec<(Address, Address)> = SVec::new(e);
        for p in &self.pairs {
            ps.push_back(p.clone());
        }
        let (b, a): (SVec<i128>, SVec<i128>) =
            envx::call_t(e, &self.probe, "dump", args![e; toks, hs, ps]).map_err(|er| violation("C19/observe/balance-getter-failed", er))?;
        let (nh, np) = (self.holders.len(), self.pairs.len());
        ensure!(
            b.len() as usize == nh && a.len() as usize == np,
            "C19/observe/balance-getter-failed",
            "probe returned {} balances / {} allowances",
            b.len(),
            a.len()
        );
        bal.push(b.iter().collect());
        alw.push(a.iter().collect());
        Ok(Dump { bal, alw, logs: [self.read_log(0)?, self.read_log(1)?] })
    }

    fn cand_index(&self, a: &Address) -> Option<usize> {
        self.cands.iter().position(|c| c == a)
    }

    /// raw enumeration slot (selector use only)
    fn slot(&self, i: u32) -> Option<Address> {
        let e = &self.e;
        e.as_contract(&self.fwd, || e.storage().persistent().get::<_, Address>(&FeeAbstractionStorageKey::Token(i)))
    }
    fn count(&self) -> u32 {
        let e = &self.e;
        e.as_contract(&self.fwd, || e.storage().instance().get::<_, u32>(&FeeAbstractionStorageKey::Count).unwrap_or(0))
    }

    /// `is_allowed_fee_token` and the `Count / Token(i) / TokenIndex` entries describe exactly the model set.
    fn check_list(&self, model: &BTreeSet<usize>, hi_water: u32, what: &str) -> R {
        let e = &self.e;
        let cands = self.cands.clone();
        let fwd = self.fwd.clone();
        #[allow(clippy::type_complexity)]
        let read = catch_unwind(AssertUnwindSafe(|| {
            e.as_contract(&fwd, || {
                let count: u32 = e.storage().instance().get(&FeeAbstractionStorageKey::Count).unwrap_or(0);
                let upto = count.max(hi_water).saturating_add(2).min(64);
                let slots: Vec<Option<Address>> = (0..upto).map(|i| e.storage().persistent().get(&FeeAbstractionStorageKey::Token(i))).collect();
                let idx: Vec<Option<u32>> = cands.iter().map(|c| e.storage().persistent().get(&FeeAbstractionStorageKey::TokenIndex(c.clone()))).collect();
                (count, slots, idx)
            })
        }));
        let (count, slots, idx) = match read {
            Ok(x) => x,
            Err(_) => bail!("C19/allowlist/enumeration-mismatch", "{what}: reading the allow-list entries panicked (model set {:?})", model),
        };
        ensure!(
            count as usize == model.len(),
            "C19/allowlist/enumeration-mismatch",
            "{what}: Count = {count}, but {} tokens are allowed and not since removed ({:?})",
            model.len(),
            model
        );
        let mut seen: BTreeSet<usize> = BTreeSet::new();
        for (i, s) in slots.iter().enumerate() {
            if (i as u32) < count {
                let a = match s {
                    Some(a) => a,
                    None => bail!("C19/allowlist/enumeration-mismatch", "{what}: Token({i}) is missing although Count = {count}"),
                };
                let ci = match self.cand_index(a) {
                    Some(ci) => ci,
                    None => bail!("C19/allowlist/enumeration-mismatch", "{what}: Token({i}) holds an address that was never enabled"),
                };
                ensure!(model.contains(&ci), "C19/allowlist/enumeration-mismatch", "{what}: Token({i}) = candidate {ci}, which is not in the allowed set {:?}", model);
                ensure!(seen.insert(ci), "C19/allowlist/enumeration-mismatch", "{what}: candidate {ci} is enumerated twice (set {:?})", model);
                ensure!(
                    idx[ci] == Some(i as u32),
                    "C19/allowlist/enumeration-mismatch",
                    "{what}: Token({i}) = candidate {ci} but TokenIndex(candidate {ci}) = {:?} (set {:?})",
                    idx[ci],
                    model
                );
            } else {
                ensure!(s.is_none(), "C19/allowlist/enumeration-mismatch", "{what}: stale entry Token({i}) beyond Count = {count}");
            }
        }
        for ci in 0..cands.len() {
            if !model.contains(&ci) {
                ensure!(
                    idx[ci].is_none(),
                    "C19/allowlist/enumeration-mismatch",
                    "{what}: stale TokenIndex(candidate {ci}) = {:?}; allowed set is {:?}",
                    idx[ci],
                    model
                );
            }
        }
        // the library's own membership test (it also extends the TTL of both entries of a member)
        let allowed = match catch_unwind(AssertUnwindSafe(|| e.as_contract(&fwd, || cands.iter().map(|c| is_allowed_fee_token(e, c)).collect::<Vec<bool>>()))) {
            Ok(x) => x,
            Err(_) => bail!("C19/allowlist/is_allowed-panicked", "{what}: is_allowed_fee_token panicked (allowed set {:?})", model),
        };
        for ci in 0..cands.len() {
            let want = model.is_empty() || model.contains(&ci);
            ensure!(
                allowed[ci] == want,
                "C19/allowlist/is_allowed-mismatch",
                "{what}: is_allowed_fee_token(candidate {ci}) = {}, allowed set is {:?}",
                allowed[ci],
                model
            );
        }
        Ok(())
    }
}

fn sv(e: &Env, v: &[Val]) -> SVec<Val> {
    let mut out = SVec::new(e);
    for x in v {
        out.push_back(*x);
    }
    out
}
fn to_sc(e: &Env, v: &SVec<Val>) -> Vec<ScVal> {
    v.iter().map(|x| ScVal::try_from_val(e, &x).unwrap_or(ScVal::Void)).collect()
}

// ------------------------------------------------------------------ interpreter

#[derive(Default)]
struct Seen {
    ok_forward: bool,
    rej_bounds: bool,
    rej_tamper: bool,
    rej_target: bool,
}

pub fn run_case(case: &Case, ctx: &mut Ctx) -> R {
    let w = World::setup(case)?;
    let e = &w.e;
    let mut allowed: BTreeSet<usize> = (0..N_CAND).filter(|i| case.flavour == Flavour::Permissioned && case.init_list & (1 << i) != 0).collect();
    let mut hi_water: u32 = allowed.len() as u32;
    let mut fail = [false, false];
    let mut seen = Seen::default();
    let mut d = w.dump()?;
    w.check_list(&allowed, hi_water, "after set-up")?;

    for (step, op) in case.ops.iter().enumerate() {
        match op {
            Op::Advance { k } => {
                envx::advance(e, *k);
                d = w.dump()?;
            }
            Op::Script { second, fail: f } => {
                let i = *second as usize;
                envx::no_auth(e);
                call(e, &w.targets[i], "script", args![e; *f]).map_err(|er| setup_err("target script", er))?;
                fail[i] = *f;
            }
            Op::Sweep { tok } => {
                if w.fl != Flavour::Permissioned {
                    continue;
                }
                let t = &w.toks[pick(*tok, N_TOK)];
                let a = args![e; t.clone(), w.sink.clone(), w.manager.clone()];
                envx::set_auth(e, &[(&w.manager, &Inv::new(&w.fwd, "sweep_tokens", a.clone()))]);
                let r = call(e, &w.fwd, "sweep_tokens", a);
                envx::no_auth(e);
                ctx.op(r.is_ok());
                if r.is_ok() {
                    ctx.class("sweep_ok");
                }
                d = w.dump()?;
            }
            Op::List { sel, on, by_manager, with_auth } => {
                if w.fl != Flavour::Permissioned {
                    continue;
                }
                let what = format!("step {step} {op:?}");
                let members: Vec<usize> = allowed.iter().copied().collect();
                let non: Vec<usize> = (0..N_CAND).filter(|i| !allowed.contains(i)).collect();
                let ci = match sel {
                    ListSel::Cand(s) => Some(pick(*s, N_CAND)),
                    ListSel::Member(s) => (!members.is_empty()).then(|| members[pick(*s, members.len())]),
                    ListSel::NonMember(s) => (!non.is_empty()).then(|| non[pick(*s, non.len())]),
                    ListSel::First => w.slot(0).and_then(|a| w.cand_index(&a)),
                    ListSel::Last => {
                        let c = w.count();
                        if c == 0 {
                            None
                        } else {
                            w.slot(c - 1).and_then(|a| w.cand_index(&a))
                        }
                    }
                };
                let ci = match ci {
                    Some(ci) => ci,
                    None => {
                        ctx.class("skipped_op");
                        continue;
                    }
                };
                let who = if *by_manager { &w.manager } else { &w.stranger };
                let f = if *on { "enable_fee_token" } else { "disable_fee_token" };
                let a = args![e; w.cands[ci].clone(), who.clone()];
                // (as_contract is a top-level frame: read the selector slots BEFORE installing the entries)
                let first_slot = w.slot(0).and_then(|a| w.cand_index(&a));
                let cnt = w.count();
                let last_slot = if cnt > 0 { w.slot(cnt - 1).and_then(|a| w.cand_index(&a)) } else { None };
                if *with_auth {
                    envx::set_auth(e, &[(who, &Inv::new(&w.fwd, f, a.clone()))]);
                } else {
                    envx::no_auth(e);
                }
                let r = call(e, &w.fwd, f, a);
                envx::no_auth(e);
                ctx.op(r.is_ok());
                let member = allowed.contains(&ci);
                let valid = if *on { !member } else { member };
                if r.is_ok() {
                    ensure!(
                        *by_manager && *with_auth,
                        "C19/allowlist/changed-without-manager",
                        "{what}: {f} succeeded by_manager={by_manager} with_auth={with_auth}"
                    );
                    ensure!(
                        valid,
                        "C19/allowlist/invalid-transition-accepted",
                        "{what}: {f}(candidate {ci}) succeeded although membership was already {member} (set {:?})",
                        allowed
                    );
                    if *on {
                        allowed.insert(ci);
                        ctx.class("list_enable_ok");
                    } else {
                        allowed.remove(&ci);
                        ctx.class("list_disable_ok");
                        if allowed.is_empty() {
                            ctx.class("list_remove_only");
                        } else if Some(ci) == last_slot {
                            ctx.class("list_remove_last");
                        } else if Some(ci) == first_slot {
                            ctx.class("list_remove_first");
                        } else {
                            ctx.class("list_remove_middle");
                        }
                    }
                    hi_water = hi_water.max(allowed.len() as u32);
                } else if *by_manager && *with_auth {
                    // documented: FeeTokenAlreadyAllowed / FeeTokenNotAllowed are the only refusals
                    ensure!(
                        !valid,
                        "C19/allowlist/manager-call-refused",
                        "{what}: authorized manager call {f}(candidate {ci}) refused although membership = {member}: {:?}",
                        r
                    );
                    ctx.class(if *on { "list_repeat_enable_refused" } else { "list_disable_absent_refused" });
                } else {
                    ctx.class("list_unauthorized_refused");
                }
                let d2 = w.dump()?;
                ensure!(d2 == d, "C19/allowlist/side-effect", "{what}: allow-list call changed balances/allowances/target log");
            }
            Op::Forward(f) => {
                step_forward(&w, step, f, &mut d, &allowed, &fail, &mut seen, ctx)?;
            }
        }
        w.check_list(&allowed, hi_water, &format!("after step {step} {op:?}"))?;
    }
    if seen.ok_forward && seen.rej_bounds && seen.rej_tamper && seen.rej_target {
        ctx.nontrivial = true;
        ctx.class("nontrivial");
    }
    Ok(())
}

#[allow(clippy::too_many_arguments)]
fn step_forward(w: &World, step: usize, f: &Fwd, d: &mut Dump, allowed: &BTreeSet<usize>, fail: &[bool; 2], seen: &mut Seen, ctx: &mut Ctx) -> R {
    let e = &w.e;
    let acc: Vec<usize> = (0..N_TOK).filter(|i| allowed.is_empty() || allowed.contains(i)).collect();
    let rej: Vec<usize> = (0..N_TOK).filter(|i| !acc.contains(i)).collect();
    let ti = match &f.tok {
        TokSel::Accepted(s) if !acc.is_empty() => acc[pick(*s, acc.len())],
        TokSel::Refused(s) if !rej.is_empty() => rej[pick(*s, rej.len())],
        TokSel::Any(s) | TokSel::Accepted(s) | TokSel::Refused(s) => pick(*s, N_TOK),
    };
    let tok = w.toks[ti].clone();
    let (user, ui): (Address, Option<usize>) = match &f.user {
        UserSel::User(s) => {
            let i = pick(*s, w.users.len());
            (w.users[i].clone(), Some(i))
        }
        UserSel::Forwarder => (w.fwd.clone(), None),
    };
    let (relayer, has_role, rel_holder) = match &f.relayer {
        RelSel::Executor(s) => {
            let i = pick(*s, w.relayers.len());
            (w.relayers[i].clone(), true, H_REL0 + i)
        }
        RelSel::Stranger => (w.stranger.clone(), false, H_STRANGER),
    };
    let user_holder = ui.map(|i| H_USER0 + i).unwrap_or(H_FWD);
    let now = envx::seq(e);
    let max: i128 = match &f.max {
        MaxSel::Abs(x) => *x,
        MaxSel::BalPlus(k) => d.bal[ti][user_holder].saturating_add(*k as i128),
    };

    // ---- optional pre-existing allowance (explicitly authorized by the user; plain token call)
    if let (PreAllow::MaxPlus(k), Some(_)) = (&f.pre, ui) {
        let amt = max.saturating_add(*k as i128);
        if amt >= 0 {
            let a = args![e; user.clone(), w.fwd.clone(), amt, now.saturating_add(100)];
            envx::set_auth(e, &[(&user, &Inv::new(&tok, "approve", a.clone()))]);
            let r = call(e, &tok, "approve", a);
            envx::no_auth(e);
            r.map_err(|er| setup_err("pre-approve", er))?;
            *d = w.dump()?;
        }
    }
    let old_allow: i128 = ui.map(|i| d.alw[ti][i]).unwrap_or(0);
    let fee: i128 = match &f.fee {
        FeeSel::MaxPlus(k) => max.saturating_add(*k as i128),
        FeeSel::Abs(x) => *x,
        FeeSel::Half => max / 2,
        FeeSel::AllowPlus(k) => old_allow.saturating_add(*k as i128),
    };
    let exp: u32 = match &f.exp {
        ExpSel::Rel(k) => (now as i64 + *k as i64).clamp(0, u32::MAX as i64) as u32,
        ExpSel::Abs(x) => *x,
    };
    let tix = f.tgt.second as usize;
    let tgt = w.targets[tix].clone();
    let (x, y) = (f.tgt.x as i128, f.tgt.y as u32);
    let (fname, targs): (&str, SVec<Val>) = match f.tgt.f {
        TFn::Ping => ("ping", args![e; x, y]),
        TFn::Guarded => ("guarded", args![e; user.clone(), x]),
        TFn::Boom => ("boom", args![e; x, y]),
        TFn::Missing => ("nope", args![e; x, y]),
    };
    let fsym = Symbol::new(e, fname);
    let call_args: SVec<Val> = args![e; tok.clone(), fee, max, exp, tgt.clone(), fsym.clone(), targs.clone(), user.clone(), relayer.clone()];

    // ---- authorization entries
    let mut root: Vec<Val> =
        vec![tok.clone().into_val(e), max.into_val(e), exp.into_val(e), tgt.clone().into_val(e), fsym.clone().into_val(e), targs.clone().into_val(e)];
    let mut approve_sub = Some(Inv::new(&tok, "approve", args![e; user.clone(), w.fwd.clone(), max, exp]));
    let mut target_sub = if f.tgt.f == TFn::Guarded { Some(Inv::new(&tgt, fname, targs.clone())) } else { None };
    let mut user_signer = Some(user.clone());
    let mut rel_inv = Some(Inv::new(&w.fwd, "forward", call_args.clone()));
    let mut rel_signer = relayer.clone();
    let mut extra: Option<(Address, Inv)> = None;
    match &f.auth {
        FAuth::Exact => {}
        FAuth::Surplus => {
            extra = Some((w.sink.clone(), Inv::new(&tok, "approve", args![e; w.sink.clone(), w.fwd.clone(), 1i128, now])));
            if target_sub.is_none() {
                // a target sub-invocation that nobody asks for is harmless
                target_sub = Some(Inv::new(&tgt, fname, targs.clone()));
            }
        }
        FAuth::TamperUser(field, v) => {
            let i = field.idx();
            if *v % 3 == 2 {
                root.remove(i);
            } else {
                let alt = (*v % 3) as usize;
                root[i] = match field {
                    Field::Token => w.toks[(ti + 1 + alt) % N_TOK].clone().into_val(e),
                    Field::Max => (if alt == 0 { max.wrapping_add(1) } else { max.wrapping_sub(1) }).into_val(e),
                    Field::Exp => (if alt == 0 { exp.wrapping_add(1) } else { exp.wrapping_sub(1) }).into_val(e),
                    Field::Target => w.targets[1 - tix].clone().into_val(e),
                    Field::Fn => Symbol::new(e, if fname == "ping" { "pong" } else { "ping" }).into_val(e),
                    Field::Args => {
                        let other: SVec<Val> = if alt == 0 {
                            match f.tgt.f {
                                TFn::Guarded => args![e; user.clone(), x + 1],
                                _ => args![e; x, y + 1],
                            }
                        } else {
                            match f.tgt.f {
                                TFn::Guarded => args![e; user.clone(), x, 0u32],
                                _ => args![e; x],
                            }
                        };
                        other.into_val(e)
                    }
                };
            }
        }
        FAuth::DropUser => user_signer = None,
        FAuth::SwapUser => {
            let other = match ui {
                Some(i) => w.users[1 - i].clone(),
                None => w.users[0].clone(),
            };
            user_signer = Some(other);
        }
        FAuth::DropApprove => approve_sub = None,
        FAuth::TamperApprove(k) => {
            let a = match k % 4 {
                0 => args![e; user.clone(), w.fwd.clone(), max.wrapping_add(1), exp],
                1 => args![e; user.clone(), w.fwd.clone(), max.wrapping_sub(1), exp],
                2 => args![e; user.clone(), w.fwd.clone(), max, exp.wrapping_add(1)],
                _ => args![e; user.clone(), relayer.clone(), max, exp],
            };
            approve_sub = Some(Inv::new(&tok, "approve", a));
        }
        FAuth::DropTargetSub => target_sub = None,
        FAuth::TamperTargetSub => {
            if f.tgt.f == TFn::Guarded {
                target_sub = Some(Inv::new(&tgt, fname, args![e; user.clone(), x + 1]));
            }
        }
        FAuth::DropRelayer => rel_inv = None,
        FAuth::TamperRelayer(k) => {
            let other_user = match ui {
                Some(i) => w.users[1 - i].clone(),
                None => w.users[0].clone(),
            };
            let a: SVec<Val> = match k % 3 {
                0 => args![e; tok.clone(), fee.wrapping_add(1), max, exp, tgt.clone(), fsym.clone(), targs.clone(), user.clone(), relayer.clone()],
                1 => args![e; tok.clone(), fee, max, exp, tgt.clone(), fsym.clone(), targs.clone(), other_user, relayer.clone()],
                _ => args![e; tok.clone(), fee, max, exp, tgt.clone(), fsym.clone(), targs.clone(), user.clone(), w.sink.clone()],
            };
            rel_inv = Some(Inv::new(&w.fwd, "forward", a));
        }
        FAuth::SwapRelayer => rel_signer = w.sink.clone(),
    }
    let mut user_inv = Inv::new(&w.fwd, "forward", sv(e, &root));
    if let Some(s) = approve_sub {
        user_inv = user_inv.with_sub(s);
    }
    if let Some(s) = target_sub {
        user_inv = user_inv.with_sub(s);
    }
    let mut entries: Vec<(Address, Inv)> = vec![];
    if let Some(s) = user_signer {
        entries.push((s, user_inv));
    }
    if let Some(i) = rel_inv {
        entries.push((rel_signer, i));
    }
    if let Some(x) = extra {
        entries.push(x);
    }

    // ---- model: reasons why this forward MUST be refused (written from the property statement)
    let approve_needed = w.fl.eager() || old_allow < max;
    let mut reasons: Vec<String> = vec![];
    if ui.is_none() {
        reasons.push("user-is-forwarder".into());
    }
    match &f.auth {
        FAuth::TamperUser(field, _) => reasons.push(format!("tampered-auth:{}", field.name())),
        FAuth::DropUser => reasons.push("unauthorized:no-user-entry".into()),
        FAuth::SwapUser => reasons.push("unauthorized:foreign-user-entry".into()),
        FAuth::DropApprove if approve_needed => reasons.push("unauthorized:approve-sub-missing".into()),
        FAuth::TamperApprove(_) if approve_needed => reasons.push("unauthorized:approve-sub-tampered".into()),
        FAuth::DropTargetSub if f.tgt.f == TFn::Guarded => reasons.push("unauthorized:target-sub-missing".into()),
        FAuth::TamperTargetSub if f.tgt.f == TFn::Guarded => reasons.push("unauthorized:target-sub-tampered".into()),
        FAuth::DropRelayer => reasons.push("unauthorized:no-relayer-entry".into()),
        FAuth::TamperRelayer(_) => reasons.push("unauthorized:relayer-entry-tampered".into()),
        FAuth::SwapRelayer => reasons.push("unauthorized:foreign-relayer-entry".into()),
        _ => {}
    }
    if w.fl == Flavour::Permissioned && !has_role {
        reasons.push("relayer-not-executor".into());
    }
    if fee <= 0 {
        reasons.push("nonpositive-fee".into());
    } else if fee > max {
        reasons.push("fee-above-max".into());
    }
    if exp < now {
        reasons.push("expired".into());
    }
    if !(allowed.is_empty() || allowed.contains(&ti)) {
        reasons.push("disallowed-token".into());
    }
    let target_fails = matches!(f.tgt.f, TFn::Boom | TFn::Missing) || fail[tix];
    if target_fails {
        reasons.push("failing-target".into());
    }

    // ---- the call
    let what = format!(
        "step {step} [{:?}] forward(token {ti}, fee {fee}, max {max}, exp {exp} (now {now}), target {tix}.{fname}, user {:?}, relayer {:?}) auth {:?}, old allowance {old_allow}, allowed set {:?}",
        w.fl, f.user, f.relayer, f.auth, allowed
    );
    let refs: Vec<(&Address, &Inv)> = entries.iter().map(|(a, i)| (a, i)).collect();
    envx::set_auth(e, &refs);
    let r = call(e, &w.fwd, "forward", call_args.clone());
    envx::no_auth(e);
    ctx.op(r.is_ok());
    let d2 = w.dump()?;

    if r.is_ok() {
        if let Some(first) = reasons.first() {
            let sig = match first.as_str() {
                "fee-above-max" => "C19/forward/fee-above-max-accepted".to_string(),
                "nonpositive-fee" => "C19/forward/nonpositive-fee-accepted".to_string(),
                "expired" => "C19/forward/expired-authorization-accepted".to_string(),
                "disallowed-token" => "C19/forward/disallowed-token-accepted".to_string(),
                "failing-target" => "C19/forward/failed-target-call-accepted".to_string(),
                "relayer-not-executor" => "C19/forward/relayer-without-executor-role-accepted".to_string(),
                "user-is-forwarder" => "C19/forward/user-is-forwarder-accepted".to_string(),
                s if s.starts_with("tampered-auth:") => format!("C19/forward/tampered-auth-accepted:{}", &s["tampered-auth:".len()..]),
                s => format!("C19/forward/unauthorized-accepted:{}", s.trim_start_matches("unauthorized:")),
            };
            bail!(sig, "{what}: SUCCEEDED although it must be refused: {:?}", reasons);
        }
        // effects: exactly the fee moves from the user to the recipient, nothing else
        let rcpt = if w.fl.eager() { rel_holder } else { H_FWD };
        let mut want = d.clone();
        want.bal[ti][user_holder] = d.bal[ti][user_holder].wrapping_sub(fee);
        want.bal[ti][rcpt] = want.bal[ti][rcpt].wrapping_add(fee);
        let residual = if w.fl.eager() { max - fee } else { old_allow.max(max) - fee };
        if let Some(i) = ui {
            want.alw[ti][i] = residual;
        }
        want.logs[tix].push((fname.to_string(), to_sc(e, &targs)));
        ensure!(
            d2.bal[ti][user_holder] == want.bal[ti][user_holder],
            "C19/forward/charged-not-fee",
            "{what}: user balance {} -> {}, stated fee {fee}",
            d.bal[ti][user_holder],
            d2.bal[ti][user_holder]
        );
        ensure!(
            d2.bal[ti][rcpt] == want.bal[ti][rcpt],
            "C19/forward/recipient-credit-wrong",
            "{what}: fee recipient balance {} -> {}, stated fee {fee}",
            d.bal[ti][rcpt],
            d2.bal[ti][rcpt]
        );
        ensure!(d2.bal == want.bal, "C19/forward/other-balance-changed", "{what}: balances {:?} -> {:?}, expected {:?}", d.bal, d2.bal, want.bal);
        ensure!(
            d2.logs == want.logs,
            "C19/forward/target-call-mismatch",
            "{what}: target logs {:?} -> {:?}, expected exactly one more record ({fname}, args)",
            d.logs.iter().map(|l| l.len()).collect::<Vec<_>>(),
            d2.logs
        );
        if let Some(i) = ui {
            ensure!(
                d2.alw[ti][i] == residual,
                if w.fl.eager() { "C19/forward/residual-allowance:eager" } else { "C19/forward/residual-allowance:lazy" },
                "{what}: allowance(user, forwarder) {} -> {}, documented residual {residual}",
                d.alw[ti][i],
                d2.alw[ti][i]
            );
        }
        ensure!(d2.alw == want.alw, "C19/forward/other-allowance-changed", "{what}: allowances {:?} -> {:?}, expected {:?}", d.alw, d2.alw, want.alw);

        seen.ok_forward = true;
        ctx.class("forward_ok");
        ctx.class(if ti == 2 { "forward_ok:sac" } else { "forward_ok:lib-token" });
        if fee == max {
            ctx.class("forward_ok:fee==max");
        }
        if fee == 1 {
            ctx.class("forward_ok:fee==1");
        }
        if exp == now {
            ctx.class("forward_ok:exp==now");
        }
        if !w.fl.eager() {
            ctx.class(if old_allow < max {
                "forward_ok:lazy-approved"
            } else if old_allow == max {
                "forward_ok:lazy-allowance==max"
            } else {
                "forward_ok:lazy-allowance>max"
            });
        } else if old_allow > 0 {
            ctx.class("forward_ok:eager-overwrote-allowance");
        }
        if !approve_needed && matches!(f.auth, FAuth::DropApprove | FAuth::TamperApprove(_)) {
            ctx.class("forward_ok:lazy-without-approve-sub");
        }
        if f.tgt.f == TFn::Guarded {
            ctx.class("forward_ok:guarded-target");
        }
        if !allowed.is_empty() {
            ctx.class("forward_ok:listed-token");
        }
        if !has_role {
            ctx.class("forward_ok:permissionless-stranger-relayer");
        }
    } else {
        ensure!(d2 == *d, "C19/forward/failed-call-left-trace", "{what}: refused ({:?}) but state changed:\n before {:?}\n after  {:?}", r, d, d2);
        if reasons.is_empty() {
            // documented flow (module + example docs): exact authorizations, valid bounds, live expiration,
            // acceptable token, sufficient balance => the forward executes
            let plain = d.bal[ti][user_holder] >= fee && (exp as u64) <= now as u64 + 1000;
            if plain && f.auth == FAuth::Exact {
                // diagnosis: does the forwarder accept a user entry that does not cover one of the six arguments?
                for field in [Field::Token, Field::Max, Field::Exp, Field::Target, Field::Fn, Field::Args] {
                    let mut short = root.clone();
                    short.remove(field.idx());
                    let mut inv = Inv::new(&w.fwd, "forward", sv(e, &short)).with_sub(Inv::new(&tok, "approve", args![e; user.clone(), w.fwd.clone(), max, exp]));
                    if f.tgt.f == TFn::Guarded {
                        inv = inv.with_sub(Inv::new(&tgt, fname, targs.clone()));
                    }
                    let rinv = Inv::new(&w.fwd, "forward", call_args.clone());
                    envx::set_auth(e, &[(&user, &inv), (&relayer, &rinv)]);
                    let r2 = call(e, &w.fwd, "forward", call_args.clone());
                    envx::no_auth(e);
                    ensure!(
                        r2.is_err(),
                        format!("C19/forward/tampered-auth-accepted:{}", field.name()),
                        "{what}: the exactly authorized forward was refused ({:?}), but the same forward SUCCEEDED with a user entry whose argument tuple does not cover `{}`",
                        r,
                        field.name()
                    );
                }
            }
            ensure!(
                !plain,
                "C19/forward/exact-authorized-forward-refused",
                "{what}: every documented precondition holds (user balance {}), but the forward was refused: {:?}",
                d.bal[ti][user_holder],
                r
            );
            ctx.class("refused_by_token"); // insufficient balance / token-side live_until limits
        } else {
            if reasons.len() == 1 {
                let r0 = reasons[0].as_str();
                ctx.class(&format!("rejected_only:{r0}"));
                if r0 == "fee-above-max" || r0 == "nonpositive-fee" {
                    seen.rej_bounds = true;
                    if !w.fl.eager() && old_allow >= fee && fee > max {
                        ctx.class("rejected_only:fee-above-max:lazy-allowance-covers-fee");
                    }
                }
                if r0 == "expired" && !approve_needed {
                    ctx.class("rejected_only:expired:lazy-no-approve");
                }
                if r0.starts_with("tampered-auth:") {
                    seen.rej_tamper = true;
                }
                if r0 == "failing-target" {
                    seen.rej_target = true;
                }
            } else {
                ctx.class("rejected_multi_reason");
            }
        }
    }
    *d = d2;
    Ok(())
}

pub fn property() -> Property {
    let mut p = Property {
        id: "C19",
        rule: "case = (forwarder flavour, start ledger, initial allow-list, history of 10..33 (thorough 49) ops: forwards with state-relative fee/max/expiration/pre-allowance \
               selectors over 3 fee tokens (2 library tokens + SAC), 2 users, 3 relayers, 2 targets and 12 explicit-authorization modes; allow-list enable/disable by \
               manager/stranger; sweep; target scripting; ledger advance). non-trivial = >=1 successful forward AND >=1 forward refused solely for fee bounds AND >=1 refused \
               solely for a tampered user authorization AND >=1 refused solely because the target call fails. collect-fee-direct: a contract calling the low-level collect_fee helper directly, payer = an ordinary user or the contract itself, eager/lazy, fee/max/expiration/pre-allowance/entries varied; non-trivial = >=1 self-charge refused although the contract could pay, >=1 successful and >=1 refused user charge. distinct = distinct serialised case",
        subs: vec![
            gen_sub::<Case>("permissionless", 600, 10000, strat_permissionless, run_case),
            gen_sub::<Case>("permissioned", 900, 15000, strat_permissioned, run_case),
            // the low-level helper used directly: decides "user equal to the forwarder" where real authorization can reach it
            gen_sub::<super::c19b::Case>("collect-fee-direct", 900, 15000, super::c19b::strategy, super::c19b::run),
            // role guards of the permissioned forwarder (forward / enable / disable / sweep) x six authorization variants
            gen_sub::<super::c06b::GCase>("permissioned-guards", 150, 3000, super::c19b::guards_strategy, super::c19b::run_guards),
        ],
        // <= 1/10 of the minimum measured over seeds 0..5 (quick); thorough = 10 x quick
        floors: vec![
            ("nontrivial", 40, 400),
            ("forward_ok", 600, 6000),
            ("forward_ok:sac", 200, 2000),
            ("forward_ok:lazy-allowance>max", 60, 600),
            ("forward_ok:lazy-allowance==max", 40, 400),
            ("forward_ok:lazy-approved", 170, 1700),
            ("forward_ok:eager-overwrote-allowance", 200, 2000),
            ("forward_ok:guarded-target", 200, 2000),
            ("rejected_only:fee-above-max", 120, 1200),
            ("rejected_only:fee-above-max:lazy-allowance-covers-fee", 14, 140),
            ("rejected_only:nonpositive-fee", 130, 1300),
            ("rejected_only:expired", 90, 900),
            ("rejected_only:expired:lazy-no-approve", 17, 170),
            ("rejected_only:failing-target", 130, 1300),
            ("rejected_only:disallowed-token", 60, 600),
            ("rejected_only:relayer-not-executor", 28, 280),
            ("rejected_only:user-is-forwarder", 25, 250),
            ("rejected_only:tampered-auth:token", 22, 220),
            ("rejected_only:tampered-auth:max-fee", 22, 220),
            ("rejected_only:tampered-auth:expiration", 22, 220),
            ("rejected_only:tampered-auth:target", 22, 220),
            ("rejected_only:tampered-auth:fn", 22, 220),
            ("rejected_only:tampered-auth:args", 22, 220),
            ("rejected_only:unauthorized:approve-sub-missing", 27, 270),
            ("rejected_only:unauthorized:no-user-entry", 13, 130),
            ("rejected_only:unauthorized:no-relayer-entry", 23, 230),
            ("rejected_only:unauthorized:target-sub-missing", 7, 70),
            ("list_enable_ok", 70, 700),
            ("list_disable_ok", 77, 770),
            ("list_remove_first", 22, 220),
            ("list_remove_last", 21, 210),
            ("list_remove_only", 22, 220),
            ("list_remove_middle", 6, 60),
            ("list_repeat_enable_refused", 79, 790),
        ],
        assumptions: vec![
            "Soroban native test host (auth manager, rollback of failed invocations) is trusted; plain actors are accept-all account contracts, so 'X authorizes' == 'an explicit entry of X with exactly this invocation tree is attached'",
            "fee tokens (library Base token, Stellar Asset Contract) are trusted collaborators here (C02 checks the library token); balances/allowances are observed through their public balance/allowance entry points",
            "an `approve` sub-invocation that the lazy strategy does not use (allowance >= max) is not required; a forward without it may succeed",
        ],
    };
    p.floors.extend(super::c19b::FLOORS.iter().cloned());
    p.floors.extend(super::c19b::GUARD_FLOORS.iter().cloned());
    p
}

//! C19 — not implemented yet.
use crate::engine::*;

pub fn property() -> Property {
    Property { id: "C19", rule: "", subs: vec![], floors: vec![], assumptions: vec![] }
}

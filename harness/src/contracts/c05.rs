//! Harness contracts for C05.

//! Harness contracts for C05: none needed.  The asset token is `contracts::ft::ft_base::FtBase`
//! and the vault is the example `examples::fungible_vault::contract::ExampleContract`.

//! Harness contracts for C09.

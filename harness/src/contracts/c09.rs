//! Harness contracts for C09.
//!
//! `Batcher` is an intermediary contract an adversary (or an ordinary wallet) can put between
//! the transaction and the timelock controller:
//! * `fwd` merely forwards one call (the controller's authorization tree is still rooted at the
//!   controller's own function);
//! * `run` first requires `who`'s authorization for the batch itself and then performs one or two
//!   calls, so that ONE authorization entry of `who` covers several contexts
//!   (`[batch, call 1, call 2]`) in a single `__check_auth` invocation.
//!
//! The external target of C09 is `contracts::c08::target::Target`.

pub mod batcher {
    use soroban_sdk::{contract, contractimpl, Address, Env, Symbol, Val, Vec};

    #[contract]
    pub struct Batcher;

    #[contractimpl]
    impl Batcher {
        pub fn fwd(e: &Env, target: Address, f: Symbol, args: Vec<Val>) -> Val {
            e.invoke_contract::<Val>(&target, &f, args)
        }
        pub fn run(e: &Env, who: Address, target: Address, f1: Symbol, a1: Vec<Val>, f2: Option<Symbol>, a2: Vec<Val>) {
            who.require_auth();
            e.invoke_contract::<Val>(&target, &f1, a1);
            if let Some(f2) = f2 {
                e.invoke_contract::<Val>(&target, &f2, a2);
            }
        }
    }
}

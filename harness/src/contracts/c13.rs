//! Harness contracts for C13.

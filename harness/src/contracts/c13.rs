//! Harness contracts for C13 (votes).
//!
//! * `NftVotes` — non-fungible votes token wired exactly as the library prescribes:
//!   `NonFungibleToken<ContractType = NonFungibleVotes>`, `NonFungibleBurnable` (default
//!   methods forward to `ContractType::burn/burn_from`), `Votes` (default methods), and an
//!   admin-gated `mint` / `mint_id` forwarding to `NonFungibleVotes::{sequential_mint, mint}`.
//! * `VotesLib` — the bare `stellar_governance::votes` library exposed 1:1 (no token):
//!   `transfer_voting_units`, the `Votes` trait defaults (`delegate` + getters) and the two
//!   getters that are not part of the trait (`num_checkpoints`, `get_voting_units`).
//!
//! Neither contract has logic of its own beyond forwarding.

pub mod nft_votes {
    use soroban_sdk::{contract, contractimpl, symbol_short, Address, Env, String, Symbol};
    use stellar_governance::votes::{self, Votes};
    use stellar_tokens::non_fungible::{burnable::NonFungibleBurnable, votes::NonFungibleVotes, Base, NonFungibleToken};
    const ADMIN: Symbol = symbol_short!("ADMIN");

    #[contract]
    pub struct NftVotes;

    #[contractimpl]
    impl NftVotes {
        pub fn __constructor(e: &Env, admin: Address) {
            Base::set_metadata(
                e,
                String::from_str(e, "https://example.org/nft/"),
                String::from_str(e, "VoteNft"),
                String::from_str(e, "VNFT"),
            );
            e.storage().instance().set(&ADMIN, &admin);
        }
        /// sequential mint (ids 0,1,2,…)
        pub fn mint(e: &Env, to: Address) -> u32 {
            let admin: Address = e.storage().instance().get(&ADMIN).unwrap();
            admin.require_auth();
            NonFungibleVotes::sequential_mint(e, &to)
        }
        /// explicit-id mint (the harness only passes fresh ids outside the sequential range)
        pub fn mint_id(e: &Env, to: Address, token_id: u32) {
            let admin: Address = e.storage().instance().get(&ADMIN).unwrap();
            admin.require_auth();
            NonFungibleVotes::mint(e, &to, token_id);
        }
        pub fn num_checkpoints(e: &Env, account: Address) -> u32 {
            votes::num_checkpoints(e, &account)
        }
        pub fn get_voting_units(e: &Env, account: Address) -> u128 {
            votes::get_voting_units(e, &account)
        }
    }
    #[contractimpl(contracttrait)]
    impl NonFungibleToken for NftVotes {
        type ContractType = NonFungibleVotes;
    }
    #[contractimpl(contracttrait)]
    impl NonFungibleBurnable for NftVotes {}
    #[contractimpl(contracttrait)]
    impl Votes for NftVotes {}
}

pub mod votes_lib {
    use soroban_sdk::{contract, contractimpl, Address, Env};
    use stellar_governance::votes::{self, Votes};

    #[contract]
    pub struct VotesLib;

    #[contractimpl]
    impl VotesLib {
        pub fn transfer_voting_units(e: &Env, from: Option<Address>, to: Option<Address>, amount: u128) {
            votes::transfer_voting_units(e, from.as_ref(), to.as_ref(), amount);
        }
        pub fn num_checkpoints(e: &Env, account: Address) -> u32 {
            votes::num_checkpoints(e, &account)
        }
        pub fn get_voting_units(e: &Env, account: Address) -> u128 {
            votes::get_voting_units(e, &account)
        }
    }
    #[contractimpl(contracttrait)]
    impl Votes for VotesLib {}
}

//! Harness contracts for C06 / C07.
//!
//! `Acl` wires the `AccessControl` trait exactly like the `nft-access-control`
//! example (`set_admin` in the constructor, `#[contractimpl(contracttrait)] impl
//! AccessControl for Acl {}`) and adds probe entry points guarded by each of the
//! access-control attribute macros.  The probes have no logic of their own beyond
//! bumping a counter (the "privileged effect") and returning its new value.

pub mod acl {
    use soroban_sdk::{contract, contractimpl, symbol_short, Address, Env, Symbol, Vec};
    use stellar_access::access_control::{
        get_admin, grant_role_no_auth, remove_role_accounts_count_no_auth, remove_role_admin_no_auth, set_admin, AccessControl,
    };
    use stellar_macros::{has_any_role, has_role, only_admin, only_any_role, only_role};

    const COUNTER: Symbol = symbol_short!("CNT");

    fn bump(e: &Env) -> u32 {
        let c: u32 = e.storage().instance().get(&COUNTER).unwrap_or(0);
        e.storage().instance().set(&COUNTER, &(c + 1));
        c + 1
    }

    #[contract]
    pub struct Acl;

    #[contractimpl]
    impl Acl {
        pub fn __constructor(e: &Env, admin: Address) {
            set_admin(e, &admin);
        }

        /// number of privileged effects so far (unguarded read)
        pub fn counter(e: &Env) -> u32 {
            e.storage().instance().get(&COUNTER).unwrap_or(0)
        }

        #[only_admin]
        pub fn p_admin(e: &Env) -> u32 {
            bump(e)
        }

        /// documented use of the low-level helper ("in admin functions that implement their own
        /// authorization logic"): the admin removes the admin role of `role`
        #[only_admin]
        pub fn remove_role_admin(e: &Env, role: Symbol) {
            remove_role_admin_no_auth(e, &role);
        }

        /// documented use of the low-level helper ("when cleaning up unused roles with zero
        /// members"): the admin removes the member counter of `role`
        #[only_admin]
        pub fn remove_role_count(e: &Env, role: Symbol) {
            remove_role_accounts_count_no_auth(e, &role);
        }

        /// documented use of the low-level grant in set-up / batch flows (an initial member list may name an account
        /// twice: "Returns early if the account already has the role")
        #[only_admin]
        pub fn seed_role(e: &Env, role: Symbol, accounts: Vec<Address>) {
            let admin = get_admin(e).unwrap();
            for a in accounts.iter() {
                grant_role_no_auth(e, &a, &role, &admin);
            }
        }

        /// role check + require_auth injected by the macro
        #[only_role(caller, "r1")]
        pub fn p_only_r1(e: &Env, caller: Address) -> u32 {
            bump(e)
        }

        /// role check only (documented: `#[has_role]` does NOT enforce authorization)
        #[has_role(caller, "r2")]
        pub fn p_has_r2(e: &Env, caller: Address) -> u32 {
            bump(e)
        }

        /// role check by the macro, authorization by the body (documented usage of `#[has_role]`)
        #[has_role(caller, "r2")]
        pub fn p_has_r2_auth(e: &Env, caller: Address) -> u32 {
            caller.require_auth();
            bump(e)
        }

        #[only_any_role(caller, ["r1", "r3"])]
        pub fn p_only_any(e: &Env, caller: Address) -> u32 {
            bump(e)
        }

        /// any-role check only (no authorization, as documented)
        #[has_any_role(caller, ["r0", "r2"])]
        pub fn p_has_any(e: &Env, caller: Address) -> u32 {
            bump(e)
        }
    }

    #[contractimpl(contracttrait)]
    impl AccessControl for Acl {}
}

//! Harness contracts for C06.

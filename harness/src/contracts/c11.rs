//! Harness contracts for C11.

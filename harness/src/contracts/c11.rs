//! C11 uses the NFT harness contracts of `contracts/c10.rs` (NftBaseX / NftEnumX / NftConsX) and the
//! three example contracts; it needs no contract of its own.

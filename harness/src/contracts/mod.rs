pub mod ft;

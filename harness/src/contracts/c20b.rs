//! Harness contracts for C20 (second half).

//! Harness contracts for C20 (second half): thin 1:1 wiring of the registry library
//! functions (DESIGN Appendix A) plus read-only `dump` entry points that call the
//! library's own getters in bulk (one invocation instead of dozens).  No access
//! control: authorization is not C20's subject.

/// Accept-everything policy for the smart-account context-rule registry.
pub mod mock_policy {
    use soroban_sdk::{contract, contractimpl, Env, Val};

    #[contract]
    pub struct MockPolicy;

    #[contractimpl]
    impl MockPolicy {
        pub fn can_enforce(_e: &Env, _context: Val, _authenticated_signers: Val, _context_rule: Val, _smart_account: Val) -> bool {
            true
        }
        pub fn enforce(_e: &Env, _context: Val, _authenticated_signers: Val, _context_rule: Val, _smart_account: Val) {}
        pub fn install(_e: &Env, _install_params: Val, _context_rule: Val, _smart_account: Val) {}
        pub fn uninstall(_e: &Env, _context_rule: Val, _smart_account: Val) {}
    }
}

/// `token_binder::*` 1:1.
pub mod binder {
    use soroban_sdk::{contract, contractimpl, Address, Env, Vec};
    use stellar_tokens::rwa::utils::token_binder as tb;

    #[contract]
    pub struct Binder;

    #[contractimpl]
    impl Binder {
        pub fn bind_token(e: &Env, token: Address) {
            tb::bind_token(e, &token)
        }
        pub fn bind_tokens(e: &Env, tokens: Vec<Address>) {
            tb::bind_tokens(e, &tokens)
        }
        pub fn unbind_token(e: &Env, token: Address) {
            tb::unbind_token(e, &token)
        }
        pub fn linked_tokens(e: &Env) -> Vec<Address> {
            tb::linked_tokens(e)
        }
        pub fn get_token_by_index(e: &Env, index: u32) -> Address {
            tb::get_token_by_index(e, index)
        }
        pub fn get_token_index(e: &Env, token: Address) -> u32 {
            tb::get_token_index(e, &token)
        }
        pub fn is_token_bound(e: &Env, token: Address) -> bool {
            tb::is_token_bound(e, &token)
        }
        /// Bulk read: `get_token_by_index(i)` for the given indices (the caller passes only
        /// indices below the length of `linked_tokens`) and, for the given keys,
        /// `is_token_bound` plus `get_token_index` (u32::MAX when not bound).
        pub fn dump(e: &Env, indices: Vec<u32>, keys: Vec<Address>) -> (Vec<Address>, Vec<(bool, u32)>) {
            let mut by_index = Vec::new(e);
            for i in indices.iter() {
                by_index.push_back(tb::get_token_by_index(e, i));
            }
            let mut ks = Vec::new(e);
            for k in keys.iter() {
                let b = tb::is_token_bound(e, &k);
                let ix = if b { tb::get_token_index(e, &k) } else { u32::MAX };
                ks.push_back((b, ix));
            }
            (by_index, ks)
        }
    }
}

/// `doc_manager::*` 1:1.
pub mod docs {
    use soroban_sdk::{contract, contractimpl, BytesN, Env, String, Vec};
    use stellar_tokens::rwa::extensions::doc_manager as dm;
    use stellar_tokens::rwa::extensions::doc_manager::Document;

    #[contract]
    pub struct Docs;

    #[contractimpl]
    impl Docs {
        pub fn set_document(e: &Env, name: BytesN<32>, uri: String, document_hash: BytesN<32>) {
            dm::set_document(e, &name, &uri, &document_hash)
        }
        pub fn remove_document(e: &Env, name: BytesN<32>) {
            dm::remove_document(e, &name)
        }
        pub fn get_document(e: &Env, name: BytesN<32>) -> Document {
            dm::get_document(e, &name)
        }
        pub fn get_document_by_index(e: &Env, index: u32) -> (BytesN<32>, Document) {
            dm::get_document_by_index(e, index)
        }
        pub fn get_document_count(e: &Env) -> u32 {
            dm::get_document_count(e)
        }
        pub fn get_documents(e: &Env, bucket_index: u32) -> Vec<(BytesN<32>, Document)> {
            dm::get_documents(e, bucket_index)
        }
        /// Bulk read: `get_document(name)` for names the caller expects to be attached.
        pub fn get_docs(e: &Env, names: Vec<BytesN<32>>) -> Vec<Document> {
            let mut out = Vec::new(e);
            for n in names.iter() {
                out.push_back(dm::get_document(e, &n));
            }
            out
        }
        /// Bulk read: count, `get_document_by_index(i)` for the given indices (all below the
        /// count the caller expects), `get_documents(b)` for the given buckets.
        pub fn dump(e: &Env, indices: Vec<u32>, buckets: Vec<u32>) -> (u32, Vec<(BytesN<32>, Document)>, Vec<Vec<(BytesN<32>, Document)>>) {
            let count = dm::get_document_count(e);
            let mut by_index = Vec::new(e);
            for i in indices.iter() {
                if i < count {
                    by_index.push_back(dm::get_document_by_index(e, i));
                }
            }
            let mut bs = Vec::new(e);
            for b in buckets.iter() {
                bs.push_back(dm::get_documents(e, b));
            }
            (count, by_index, bs)
        }
    }
}

/// `compliance::storage::*` 1:1 (+ `bind_token` so that the state-changing hooks can run).
pub mod compliance_reg {
    use soroban_sdk::{contract, contractimpl, Address, Env, Vec};
    use stellar_tokens::rwa::compliance::{storage as cs, ComplianceHook};
    use stellar_tokens::rwa::utils::token_binder as tb;

    #[contract]
    pub struct ComplianceReg;

    #[contractimpl]
    impl ComplianceReg {
        pub fn add_module_to(e: &Env, hook: ComplianceHook, module: Address) {
            cs::add_module_to(e, hook, module)
        }
        pub fn remove_module_from(e: &Env, hook: ComplianceHook, module: Address) {
            cs::remove_module_from(e, hook, module)
        }
        pub fn get_modules_for_hook(e: &Env, hook: ComplianceHook) -> Vec<Address> {
            cs::get_modules_for_hook(e, hook)
        }
        pub fn is_module_registered(e: &Env, hook: ComplianceHook, module: Address) -> bool {
            cs::is_module_registered(e, hook, module)
        }
        pub fn bind_token(e: &Env, token: Address) {
            tb::bind_token(e, &token)
        }
        pub fn transferred(e: &Env, from: Address, to: Address, amount: i128, token: Address) {
            cs::transferred(e, from, to, amount, token)
        }
        pub fn created(e: &Env, to: Address, amount: i128, token: Address) {
            cs::created(e, to, amount, token)
        }
        pub fn destroyed(e: &Env, from: Address, amount: i128, token: Address) {
            cs::destroyed(e, from, amount, token)
        }
        pub fn can_transfer(e: &Env, from: Address, to: Address, amount: i128, token: Address) -> bool {
            cs::can_transfer(e, from, to, amount, token)
        }
        pub fn can_create(e: &Env, to: Address, amount: i128, token: Address) -> bool {
            cs::can_create(e, to, amount, token)
        }
        /// Bulk read: per hook (in the order given) the module list and `is_module_registered`
        /// for every given module.
        pub fn dump(e: &Env, hooks: Vec<ComplianceHook>, modules: Vec<Address>) -> Vec<(Vec<Address>, Vec<bool>)> {
            let mut out = Vec::new(e);
            for h in hooks.iter() {
                let list = cs::get_modules_for_hook(e, h.clone());
                let mut reg = Vec::new(e);
                for m in modules.iter() {
                    reg.push_back(cs::is_module_registered(e, h.clone(), m));
                }
                out.push_back((list, reg));
            }
            out
        }
    }
}

/// Trivial compliance module: accepts everything, counts the calls per hook.
pub mod mock_module {
    use soroban_sdk::{contract, contractimpl, symbol_short, Address, Env, String, Symbol, Vec};
    const CALLS: Symbol = symbol_short!("CALLS");

    #[contract]
    pub struct MockModule;

    fn bump(e: &Env, i: u32) {
        let mut v: Vec<u32> = e.storage().instance().get(&CALLS).unwrap_or_else(|| Vec::from_array(e, [0u32; 5]));
        v.set(i, v.get(i).unwrap_or(0) + 1);
        e.storage().instance().set(&CALLS, &v);
    }

    #[contractimpl]
    impl MockModule {
        pub fn on_transfer(e: &Env, _from: Address, _to: Address, _amount: i128, _token: Address) {
            bump(e, 0)
        }
        pub fn on_created(e: &Env, _to: Address, _amount: i128, _token: Address) {
            bump(e, 1)
        }
        pub fn on_destroyed(e: &Env, _from: Address, _amount: i128, _token: Address) {
            bump(e, 2)
        }
        pub fn can_transfer(e: &Env, _from: Address, _to: Address, _amount: i128, _token: Address) -> bool {
            bump(e, 3);
            true
        }
        pub fn can_create(e: &Env, _to: Address, _amount: i128, _token: Address) -> bool {
            bump(e, 4);
            true
        }
        pub fn name(e: &Env) -> String {
            String::from_str(e, "mock")
        }
        /// calls seen per hook: [Transferred, Created, Destroyed, CanTransfer, CanCreate]
        pub fn calls(e: &Env) -> Vec<u32> {
            e.storage().instance().get(&CALLS).unwrap_or_else(|| Vec::from_array(e, [0u32; 5]))
        }
    }
}

//! Harness contracts for C16: a capped token whose cap can be re-set (the library documents that
//! `set_cap` may lower the cap below the current supply; mints checked with `check_cap` must then fail).

pub mod ft_capped {
    use soroban_sdk::{contract, contractimpl, Address, Env, MuxedAddress, String};
    use stellar_tokens::fungible::{
        burnable::FungibleBurnable,
        capped::{check_cap, query_cap, set_cap},
        Base, FungibleToken,
    };

    #[contract]
    pub struct FtCapped;

    #[contractimpl]
    impl FtCapped {
        pub fn __constructor(e: &Env, cap: i128) {
            Base::set_metadata(e, 7, String::from_str(e, "Capped"), String::from_str(e, "CAP"));
            set_cap(e, cap);
        }
        pub fn set_cap(e: &Env, cap: i128) {
            set_cap(e, cap);
        }
        pub fn cap(e: &Env) -> i128 {
            query_cap(e)
        }
        pub fn mint(e: &Env, to: Address, amount: i128) {
            check_cap(e, amount);
            Base::mint(e, &to, amount);
        }
    }
    #[contractimpl(contracttrait)]
    impl FungibleToken for FtCapped {
        type ContractType = Base;
    }
    #[contractimpl(contracttrait)]
    impl FungibleBurnable for FtCapped {}
}

//! Harness contracts for C16.

//! Harness contracts for C16: a capped token whose cap can be re-set (the library documents that
//! `set_cap` may lower the cap below the current supply; mints checked with `check_cap` must then fail).

pub mod ft_capped {
    use soroban_sdk::{contract, contractimpl, Address, Env, MuxedAddress, String};
    use stellar_tokens::fungible::{
        burnable::FungibleBurnable,
        capped::{check_cap, query_cap, set_cap},
        Base, FungibleToken,
    };

    #[contract]
    pub struct FtCapped;

    #[contractimpl]
    impl FtCapped {
        pub fn __constructor(e: &Env, cap: i128) {
            Base::set_metadata(e, 7, String::from_str(e, "Capped"), String::from_str(e, "CAP"));
            set_cap(e, cap);
        }
        pub fn set_cap(e: &Env, cap: i128) {
            set_cap(e, cap);
        }
        pub fn cap(e: &Env) -> i128 {
            query_cap(e)
        }
        pub fn mint(e: &Env, to: Address, amount: i128) {
            check_cap(e, amount);
            Base::mint(e, &to, amount);
        }
    }
    #[contractimpl(contracttrait)]
    impl FungibleToken for FtCapped {
        type ContractType = Base;
    }
    #[contractimpl(contracttrait)]
    impl FungibleBurnable for FtCapped {}
}

/// Guard macros STACKED on one entry point, in both orders (a usage the macro docs allow: each attribute
/// macro wraps the function it is given, including the attributes below it).  Ownable owner == AccessControl
/// admin == pauser.
pub mod stacked {
    use soroban_sdk::{contract, contractimpl, symbol_short, Address, Env, Symbol};
    use stellar_access::{access_control, ownable};
    use stellar_contract_utils::pausable;
    use stellar_macros::{only_admin, only_owner, only_role, when_not_paused, when_paused};
    const COUNTER: Symbol = symbol_short!("COUNTER");

    #[contract]
    pub struct Stacked;

    fn bump(e: &Env) -> u32 {
        let c: u32 = e.storage().instance().get(&COUNTER).unwrap_or(0) + 1;
        e.storage().instance().set(&COUNTER, &c);
        c
    }

    #[contractimpl]
    impl Stacked {
        pub fn __constructor(e: &Env, owner: Address, member: Address) {
            ownable::set_owner(e, &owner);
            access_control::set_admin(e, &owner);
            access_control::grant_role_no_auth(e, &member, &symbol_short!("worker"), &owner);
        }
        pub fn counter(e: &Env) -> u32 {
            e.storage().instance().get(&COUNTER).unwrap_or(0)
        }
        pub fn paused(e: &Env) -> bool {
            pausable::paused(e)
        }
        #[only_owner]
        pub fn pause(e: &Env) {
            pausable::pause(e)
        }
        #[only_owner]
        pub fn unpause(e: &Env) {
            pausable::unpause(e)
        }
        // ---- owner guard outermost / innermost
        #[only_owner]
        #[when_not_paused]
        pub fn owner_then_pause(e: &Env) -> u32 {
            bump(e)
        }
        #[when_not_paused]
        #[only_owner]
        pub fn pause_then_owner(e: &Env) -> u32 {
            bump(e)
        }
        // ---- admin guard
        #[only_admin]
        #[when_not_paused]
        pub fn admin_then_pause(e: &Env) -> u32 {
            bump(e)
        }
        #[when_not_paused]
        #[only_admin]
        pub fn pause_then_admin(e: &Env) -> u32 {
            bump(e)
        }
        // ---- role guard
        #[only_role(caller, "worker")]
        #[when_not_paused]
        pub fn role_then_pause(e: &Env, caller: Address) -> u32 {
            bump(e)
        }
        #[when_not_paused]
        #[only_role(caller, "worker")]
        pub fn pause_then_role(e: &Env, caller: Address) -> u32 {
            bump(e)
        }
        // ---- when_paused stacked under an owner guard
        #[only_owner]
        #[when_paused]
        pub fn owner_then_when_paused(e: &Env) -> u32 {
            bump(e)
        }
    }
}

//! Harness contracts for C19.

//! Harness contracts for C19 (fee forwarding).
//!
//! * `Target` — collaborator on the far side of `collect_fee_and_invoke`: every entry point
//!   appends `(fn, args)` to an append-only log BEFORE it may fail, so that a failed forward that
//!   leaves a trace is observable.  `boom` always fails; the other entry points fail when the
//!   scripted flag is set; `guarded` additionally requires the authorization of `who`.
//! * `Probe` — read-only bulk observer: one top-level invocation that calls the public
//!   `balance` / `allowance` entry points of arbitrary tokens (library token or SAC).

pub mod target {
    use soroban_sdk::{contract, contractimpl, contracttype, symbol_short, Address, Env, IntoVal, Symbol, Val, Vec};

    #[contracttype]
    #[derive(Clone)]
    pub struct CallRec {
        pub func: Symbol,
        pub args: Vec<Val>,
    }

    const LOG: Symbol = symbol_short!("LOG");
    const FAIL: Symbol = symbol_short!("FAIL");

    #[contract]
    pub struct Target;

    fn record(e: &Env, f: &str, args: Vec<Val>) -> u32 {
        let mut log: Vec<CallRec> = e.storage().instance().get(&LOG).unwrap_or(Vec::new(e));
        log.push_back(CallRec { func: Symbol::new(e, f), args });
        e.storage().instance().set(&LOG, &log);
        log.len()
    }
    fn maybe_fail(e: &Env) {
        let fail: bool = e.storage().instance().get(&FAIL).unwrap_or(false);
        if fail {
            panic!("scripted failure");
        }
    }

    #[contractimpl]
    impl Target {
        /// script: make every recording entry point fail after it has recorded
        pub fn script(e: &Env, fail: bool) {
            e.storage().instance().set(&FAIL, &fail);
        }
        pub fn ping(e: &Env, x: i128, y: u32) -> u32 {
            let n = record(e, "ping", (x, y).into_val(e));
            maybe_fail(e);
            n
        }
        pub fn pong(e: &Env, x: i128, y: u32) -> u32 {
            let n = record(e, "pong", (x, y).into_val(e));
            maybe_fail(e);
            n
        }
        pub fn guarded(e: &Env, who: Address, x: i128) -> u32 {
            who.require_auth();
            let n = record(e, "guarded", (who, x).into_val(e));
            maybe_fail(e);
            n
        }
        pub fn boom(e: &Env, x: i128, y: u32) -> u32 {
            record(e, "boom", (x, y).into_val(e));
            panic!("boom always fails");
        }
        pub fn log(e: &Env) -> Vec<CallRec> {
            e.storage().instance().get(&LOG).unwrap_or(Vec::new(e))
        }
    }
}

pub mod probe {
    use soroban_sdk::{contract, contractimpl, token::TokenClient, Address, Env, Vec};

    #[contract]
    pub struct Probe;

    #[contractimpl]
    impl Probe {
        /// balances[token][holder] (row-major) and allowances[token][pair] (row-major)
        pub fn dump(e: &Env, tokens: Vec<Address>, holders: Vec<Address>, pairs: Vec<(Address, Address)>) -> (Vec<i128>, Vec<i128>) {
            let mut bal = Vec::new(e);
            let mut alw = Vec::new(e);
            for t in tokens.iter() {
                let c = TokenClient::new(e, &t);
                for h in holders.iter() {
                    bal.push_back(c.balance(&h));
                }
                for (o, s) in pairs.iter() {
                    alw.push_back(c.allowance(&o, &s));
                }
            }
            (bal, alw)
        }
    }
}

/// A forwarder-like contract that uses the documented LOW-LEVEL helper `collect_fee` directly: it authorizes by its
/// operator only and charges a payer named in the arguments (the helper's docs: "does not perform authorization
/// checks", refuses `user == current contract` with InvalidUser).  It holds funds of its own, so that charging itself
/// would be possible if the helper did not refuse it.
pub mod direct {
    use soroban_sdk::{contract, contractimpl, symbol_short, Address, Env, Symbol};
    use stellar_fee_abstraction::{collect_fee, FeeAbstractionApproval};
    const OP: Symbol = symbol_short!("OP");

    #[contract]
    pub struct Direct;

    #[contractimpl]
    impl Direct {
        pub fn __constructor(e: &Env, operator: Address) {
            e.storage().instance().set(&OP, &operator);
        }
        #[allow(clippy::too_many_arguments)]
        pub fn collect(e: &Env, token: Address, fee: i128, max_fee: i128, expiration_ledger: u32, user: Address, recipient: Address, eager: bool) {
            let op: Address = e.storage().instance().get(&OP).unwrap();
            op.require_auth();
            let approval = if eager { FeeAbstractionApproval::Eager } else { FeeAbstractionApproval::Lazy };
            collect_fee(e, &token, fee, max_fee, expiration_ledger, &user, &recipient, approval);
        }
    }
}

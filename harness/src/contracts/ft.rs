//! Harness fungible-token contracts: thin wiring of library functions exactly as the
//! module documentation prescribes (DESIGN Appendix A).  `mint` requires the admin's
//! authorization; list management requires the admin's authorization.

pub mod ft_base {
    use soroban_sdk::{contract, contractimpl, symbol_short, Address, Env, MuxedAddress, String, Symbol};
    use stellar_tokens::fungible::{burnable::FungibleBurnable, Base, FungibleToken};
    const ADMIN: Symbol = symbol_short!("ADMIN");

    #[contract]
    pub struct FtBase;

    #[contractimpl]
    impl FtBase {
        pub fn __constructor(e: &Env, admin: Address) {
            Base::set_metadata(e, 7, String::from_str(e, "Base"), String::from_str(e, "BAS"));
            e.storage().instance().set(&ADMIN, &admin);
        }
        pub fn mint(e: &Env, to: Address, amount: i128) {
            let admin: Address = e.storage().instance().get(&ADMIN).unwrap();
            admin.require_auth();
            Base::mint(e, &to, amount);
        }
    }
    #[contractimpl(contracttrait)]
    impl FungibleToken for FtBase {
        type ContractType = Base;
    }
    #[contractimpl(contracttrait)]
    impl FungibleBurnable for FtBase {}
}

pub mod ft_allow {
    use soroban_sdk::{contract, contractimpl, symbol_short, Address, Env, MuxedAddress, String, Symbol};
    use stellar_tokens::fungible::{
        allowlist::{AllowList, FungibleAllowList},
        burnable::FungibleBurnable,
        Base, FungibleToken,
    };
    const ADMIN: Symbol = symbol_short!("ADMIN");

    #[contract]
    pub struct FtAllow;

    fn admin_auth(e: &Env, operator: &Address) {
        let admin: Address = e.storage().instance().get(&ADMIN).unwrap();
        if admin != *operator {
            panic!("not admin");
        }
        operator.require_auth();
    }

    #[contractimpl]
    impl FtAllow {
        pub fn __constructor(e: &Env, admin: Address) {
            Base::set_metadata(e, 7, String::from_str(e, "Allow"), String::from_str(e, "ALW"));
            e.storage().instance().set(&ADMIN, &admin);
        }
        pub fn mint(e: &Env, to: Address, amount: i128) {
            let admin: Address = e.storage().instance().get(&ADMIN).unwrap();
            admin.require_auth();
            Base::mint(e, &to, amount);
        }
    }
    #[contractimpl(contracttrait)]
    impl FungibleToken for FtAllow {
        type ContractType = AllowList;
    }
    #[contractimpl]
    impl FungibleAllowList for FtAllow {
        fn allowed(e: &Env, account: Address) -> bool {
            AllowList::allowed(e, &account)
        }
        fn allow_user(e: &Env, user: Address, operator: Address) {
            admin_auth(e, &operator);
            AllowList::allow_user(e, &user)
        }
        fn disallow_user(e: &Env, user: Address, operator: Address) {
            admin_auth(e, &operator);
            AllowList::disallow_user(e, &user)
        }
    }
    // burnable wired through the wrappers the library provides for this purpose
    #[contractimpl]
    impl FungibleBurnable for FtAllow {
        fn burn(e: &Env, from: Address, amount: i128) {
            AllowList::burn(e, &from, amount)
        }
        fn burn_from(e: &Env, spender: Address, from: Address, amount: i128) {
            AllowList::burn_from(e, &spender, &from, amount)
        }
    }
}

pub mod ft_block {
    use soroban_sdk::{contract, contractimpl, symbol_short, Address, Env, MuxedAddress, String, Symbol};
    use stellar_tokens::fungible::{
        blocklist::{BlockList, FungibleBlockList},
        burnable::FungibleBurnable,
        Base, FungibleToken,
    };
    const ADMIN: Symbol = symbol_short!("ADMIN");

    #[contract]
    pub struct FtBlock;

    fn admin_auth(e: &Env, operator: &Address) {
        let admin: Address = e.storage().instance().get(&ADMIN).unwrap();
        if admin != *operator {
            panic!("not admin");
        }
        operator.require_auth();
    }

    #[contractimpl]
    impl FtBlock {
        pub fn __constructor(e: &Env, admin: Address) {
            Base::set_metadata(e, 7, String::from_str(e, "Block"), String::from_str(e, "BLK"));
            e.storage().instance().set(&ADMIN, &admin);
        }
        pub fn mint(e: &Env, to: Address, amount: i128) {
            let admin: Address = e.storage().instance().get(&ADMIN).unwrap();
            admin.require_auth();
            Base::mint(e, &to, amount);
        }
    }
    #[contractimpl(contracttrait)]
    impl FungibleToken for FtBlock {
        type ContractType = BlockList;
    }
    #[contractimpl]
    impl FungibleBlockList for FtBlock {
        fn blocked(e: &Env, account: Address) -> bool {
            BlockList::blocked(e, &account)
        }
        fn block_user(e: &Env, user: Address, operator: Address) {
            admin_auth(e, &operator);
            BlockList::block_user(e, &user)
        }
        fn unblock_user(e: &Env, user: Address, operator: Address) {
            admin_auth(e, &operator);
            BlockList::unblock_user(e, &user)
        }
    }
    #[contractimpl]
    impl FungibleBurnable for FtBlock {
        fn burn(e: &Env, from: Address, amount: i128) {
            BlockList::burn(e, &from, amount)
        }
        fn burn_from(e: &Env, spender: Address, from: Address, amount: i128) {
            BlockList::burn_from(e, &spender, &from, amount)
        }
    }
}

pub mod ft_votes {
    use soroban_sdk::{contract, contractimpl, symbol_short, Address, Env, MuxedAddress, String, Symbol};
    use stellar_governance::votes::Votes;
    use stellar_tokens::fungible::{burnable::FungibleBurnable, votes::FungibleVotes, Base, FungibleToken};
    const ADMIN: Symbol = symbol_short!("ADMIN");

    #[contract]
    pub struct FtVotes;

    #[contractimpl]
    impl FtVotes {
        pub fn __constructor(e: &Env, admin: Address) {
            Base::set_metadata(e, 7, String::from_str(e, "Votes"), String::from_str(e, "VOT"));
            e.storage().instance().set(&ADMIN, &admin);
        }
        pub fn mint(e: &Env, to: Address, amount: i128) {
            let admin: Address = e.storage().instance().get(&ADMIN).unwrap();
            admin.require_auth();
            FungibleVotes::mint(e, &to, amount);
        }
    }
    #[contractimpl(contracttrait)]
    impl FungibleToken for FtVotes {
        type ContractType = FungibleVotes;
    }
    #[contractimpl(contracttrait)]
    impl Votes for FtVotes {}
    #[contractimpl]
    impl FungibleBurnable for FtVotes {
        fn burn(e: &Env, from: Address, amount: i128) {
            FungibleVotes::burn(e, &from, amount)
        }
        fn burn_from(e: &Env, spender: Address, from: Address, amount: i128) {
            FungibleVotes::burn_from(e, &spender, &from, amount)
        }
    }
}

//! Harness contracts for C07.

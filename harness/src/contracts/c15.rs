//! Harness contracts for C15.

//! Harness contracts for C15 (also usable by C20): thin wiring of the RWA identity stack,
//! every body forwards to the library function the module documentation names.
//!
//! * `Cti`        — `ClaimTopicsAndIssuers` over `claim_topics_and_issuers::storage::*`
//! * `Irs`        — `IdentityRegistryStorage` (+ `TokenBinder`) over `identity_registry_storage::*`
//! * `Ident`      — an identity contract: `IdentityClaims` over `identity_claims::*` (+ `remove_claim`)
//! * `IdVerifier` — `IdentityVerifier` over `identity_verifier::storage::*`
//! * `Issuer`     — `ClaimIssuer::is_claim_valid` written from the claim_issuer module recipe
//!                  (extract -> key allowed for topic -> not expired -> build message -> not revoked -> verify)
//!                  for the three library verifiers, plus the key / revocation / nonce admin entry points.
//!
//! Admin-ish entry points take an `operator` and call `operator.require_auth()` (authorization is
//! not C15's subject; the property module uses `mock_all_auths` for them).

pub mod cti {
    use soroban_sdk::{contract, contractimpl, Address, Env, Map, Vec};
    use stellar_tokens::rwa::claim_topics_and_issuers::{storage as s, ClaimTopicsAndIssuers};

    #[contract]
    pub struct Cti;

    #[contractimpl]
    impl ClaimTopicsAndIssuers for Cti {
        fn add_claim_topic(e: &Env, claim_topic: u32, operator: Address) {
            operator.require_auth();
            s::add_claim_topic(e, claim_topic)
        }
        fn remove_claim_topic(e: &Env, claim_topic: u32, operator: Address) {
            operator.require_auth();
            s::remove_claim_topic(e, claim_topic)
        }
        fn get_claim_topics(e: &Env) -> Vec<u32> {
            s::get_claim_topics(e)
        }
        fn add_trusted_issuer(e: &Env, trusted_issuer: Address, claim_topics: Vec<u32>, operator: Address) {
            operator.require_auth();
            s::add_trusted_issuer(e, &trusted_issuer, &claim_topics)
        }
        fn remove_trusted_issuer(e: &Env, trusted_issuer: Address, operator: Address) {
            operator.require_auth();
            s::remove_trusted_issuer(e, &trusted_issuer)
        }
        fn update_issuer_claim_topics(e: &Env, trusted_issuer: Address, claim_topics: Vec<u32>, operator: Address) {
            operator.require_auth();
            s::update_issuer_claim_topics(e, &trusted_issuer, &claim_topics)
        }
        fn get_trusted_issuers(e: &Env) -> Vec<Address> {
            s::get_trusted_issuers(e)
        }
        fn get_claim_topic_issuers(e: &Env, claim_topic: u32) -> Vec<Address> {
            s::get_claim_topic_issuers(e, claim_topic)
        }
        fn get_claim_topics_and_issuers(e: &Env) -> Map<u32, Vec<Address>> {
            s::get_claim_topics_and_issuers(e)
        }
        fn is_trusted_issuer(e: &Env, issuer: Address) -> bool {
            s::is_trusted_issuer(e, &issuer)
        }
        fn get_trusted_issuer_claim_topics(e: &Env, trusted_issuer: Address) -> Vec<u32> {
            s::get_trusted_issuer_claim_topics(e, &trusted_issuer)
        }
        fn has_claim_topic(e: &Env, issuer: Address, claim_topic: u32) -> bool {
            s::has_claim_topic(e, &issuer, claim_topic)
        }
    }
}

pub mod irs {
    use soroban_sdk::{contract, contractimpl, Address, Env, Vec};
    use stellar_tokens::rwa::{
        identity_registry_storage::{self as identity_storage, CountryData, IdentityRegistryStorage, IdentityType},
        utils::token_binder::{self as binder, TokenBinder},
    };

    #[contract]
    pub struct Irs;

    #[contractimpl]
    impl TokenBinder for Irs {
        fn linked_tokens(e: &Env) -> Vec<Address> {
            binder::linked_tokens(e)
        }
        fn bind_token(e: &Env, token: Address, operator: Address) {
            operator.require_auth();
            binder::bind_token(e, &token);
        }
        fn unbind_token(e: &Env, token: Address, operator: Address) {
            operator.require_auth();
            binder::unbind_token(e, &token);
        }
    }

    #[contractimpl]
    impl IdentityRegistryStorage for Irs {
        type CountryData = CountryData;

        fn add_identity(e: &Env, account: Address, identity: Address, initial_profiles: Vec<CountryData>, operator: Address) {
            operator.require_auth();
            identity_storage::add_identity(e, &account, &identity, IdentityType::Individual, &initial_profiles);
        }
        fn modify_identity(e: &Env, account: Address, new_identity: Address, operator: Address) {
            operator.require_auth();
            identity_storage::modify_identity(e, &account, &new_identity);
        }
        fn remove_identity(e: &Env, account: Address, operator: Address) {
            operator.require_auth();
            identity_storage::remove_identity(e, &account);
        }
        fn stored_identity(e: &Env, account: Address) -> Address {
            identity_storage::stored_identity(e, &account)
        }
        fn recover_identity(e: &Env, old_account: Address, new_account: Address, operator: Address) {
            operator.require_auth();
            identity_storage::recover_identity(e, &old_account, &new_account);
        }
        fn get_recovered_to(e: &Env, old: Address) -> Option<Address> {
            identity_storage::get_recovered_to(e, &old)
        }
    }
}

pub mod ident {
    use soroban_sdk::{contract, contractimpl, contracttype, Address, Bytes, BytesN, Env, String, Vec};
    use stellar_tokens::rwa::identity_claims::{self as claims, Claim, IdentityClaims};

    #[contract]
    pub struct Ident;

    #[contractimpl]
    impl IdentityClaims for Ident {
        fn add_claim(e: &Env, topic: u32, scheme: u32, issuer: Address, signature: Bytes, data: Bytes, uri: String) -> BytesN<32> {
            claims::add_claim(e, topic, scheme, &issuer, &signature, &data, &uri)
        }
        fn get_claim(e: &Env, claim_id: BytesN<32>) -> Claim {
            claims::get_claim(e, &claim_id)
        }
        fn get_claim_ids_by_topic(e: &Env, topic: u32) -> Vec<BytesN<32>> {
            claims::get_claim_ids_by_topic(e, topic)
        }
    }

    #[contractimpl]
    impl Ident {
        pub fn remove_claim(e: &Env, claim_id: BytesN<32>) {
            claims::remove_claim(e, &claim_id)
        }
    }

    /// Mirror of `identity_claims::storage::ClaimsStorageKey` (that enum lives in a private module and
    /// is not re-exported).  Used only by the property module to place a claim record that `add_claim`
    /// would refuse into an identity's storage (inside `e.as_contract`); the result is always read back
    /// through the public `get_claim` / `get_claim_ids_by_topic` entry points, so a layout drift is
    /// detected as a harness error, not silently ignored.
    #[contracttype]
    pub enum ClaimsStorageKey {
        Claim(BytesN<32>),
        ClaimsByTopic(u32),
    }
}

pub mod verifier {
    use soroban_sdk::{contract, contractimpl, Address, Env};
    use stellar_tokens::rwa::identity_verifier::{storage as s, IdentityVerifier};

    #[contract]
    pub struct IdVerifier;

    #[contractimpl]
    impl IdentityVerifier for IdVerifier {
        fn verify_identity(e: &Env, account: &Address) {
            s::verify_identity(e, account)
        }
        fn recovery_target(e: &Env, old_account: &Address) -> Option<Address> {
            s::recovery_target(e, old_account)
        }
        fn set_claim_topics_and_issuers(e: &Env, claim_topics_and_issuers: Address, operator: Address) {
            operator.require_auth();
            s::set_claim_topics_and_issuers(e, &claim_topics_and_issuers)
        }
        fn claim_topics_and_issuers(e: &Env) -> Address {
            s::claim_topics_and_issuers(e)
        }
    }

    #[contractimpl]
    impl IdVerifier {
        pub fn set_identity_registry_storage(e: &Env, identity_registry_storage: Address, operator: Address) {
            operator.require_auth();
            s::set_identity_registry_storage(e, &identity_registry_storage)
        }
        pub fn identity_registry_storage(e: &Env) -> Address {
            s::identity_registry_storage(e)
        }
    }
}

pub mod issuer {
    use soroban_sdk::{contract, contracterror, contractimpl, panic_with_error, Address, Bytes, Env};
    use stellar_tokens::rwa::claim_issuer::{
        self as ci, ClaimIssuer, ClaimIssuerError, Ed25519Verifier, Secp256k1Verifier, Secp256r1Verifier, SignatureVerifier,
    };

    /// scheme numbers are issuer-local (module docs: "Scheme 101 might expect Ed25519 …, 102 Secp256k1 …")
    pub const ED25519_SCHEME_NUM: u32 = 101;
    pub const SECP256K1_SCHEME_NUM: u32 = 102;
    pub const SECP256R1_SCHEME_NUM: u32 = 103;

    #[contracterror]
    #[derive(Copy, Clone, Debug, Eq, PartialEq)]
    #[repr(u32)]
    pub enum IssuerError {
        UnknownScheme = 1,
        Expired = 2,
        Revoked = 3,
    }

    #[contract]
    pub struct Issuer;

    /// The documented recipe, once per library verifier (the three `SignatureData` types share no trait
    /// for the public key, hence a macro instead of a generic function).
    macro_rules! recipe {
        ($ver:ty, $e:expr, $identity:expr, $topic:expr, $scheme:expr, $sig_data:expr, $claim_data:expr) => {{
            // 1. extract signature data (panics SigDataMismatch on a wrong length)
            let signature_data = <$ver as SignatureVerifier>::extract_signature_data($e, $sig_data);
            // 2. key allowed for this topic
            let pk: Bytes = signature_data.public_key.clone().into();
            if !ci::is_key_allowed_for_topic($e, &pk, $scheme, $topic) {
                panic_with_error!($e, ClaimIssuerError::NotAllowed)
            }
            // 3. not expired (claim data carries created_at / valid_until)
            if ci::is_claim_expired($e, $claim_data) {
                panic_with_error!($e, IssuerError::Expired)
            }
            // 4. message: network id || issuer || identity || topic || nonce || data
            let message = <$ver as SignatureVerifier>::build_message($e, $identity, $topic, $claim_data);
            // 5. not revoked
            if ci::is_claim_revoked($e, $identity, $topic, $claim_data) {
                panic_with_error!($e, IssuerError::Revoked)
            }
            // 6. verify (panics when the signature does not verify)
            <$ver as SignatureVerifier>::verify($e, &message, &signature_data)
        }};
    }

    #[contractimpl]
    impl ClaimIssuer for Issuer {
        fn is_claim_valid(e: &Env, identity: Address, claim_topic: u32, scheme: u32, sig_data: Bytes, claim_data: Bytes) {
            match scheme {
                ED25519_SCHEME_NUM => recipe!(Ed25519Verifier, e, &identity, claim_topic, scheme, &sig_data, &claim_data),
                SECP256K1_SCHEME_NUM => recipe!(Secp256k1Verifier, e, &identity, claim_topic, scheme, &sig_data, &claim_data),
                SECP256R1_SCHEME_NUM => recipe!(Secp256r1Verifier, e, &identity, claim_topic, scheme, &sig_data, &claim_data),
                _ => panic_with_error!(e, IssuerError::UnknownScheme),
            }
        }
    }

    #[contractimpl]
    impl Issuer {
        pub fn allow_key(e: &Env, public_key: Bytes, registry: Address, scheme: u32, claim_topic: u32, operator: Address) {
            operator.require_auth();
            ci::allow_key(e, &public_key, &registry, scheme, claim_topic)
        }
        pub fn remove_key(e: &Env, public_key: Bytes, registry: Address, scheme: u32, claim_topic: u32, operator: Address) {
            operator.require_auth();
            ci::remove_key(e, &public_key, &registry, scheme, claim_topic)
        }
        pub fn set_claim_revoked(e: &Env, identity: Address, claim_topic: u32, claim_data: Bytes, revoked: bool, operator: Address) {
            operator.require_auth();
            ci::set_claim_revoked(e, &identity, claim_topic, &claim_data, revoked)
        }
        pub fn invalidate_claim_signatures(e: &Env, identity: Address, claim_topic: u32, operator: Address) {
            operator.require_auth();
            ci::invalidate_claim_signatures(e, &identity, claim_topic)
        }
        pub fn is_claim_revoked(e: &Env, identity: Address, claim_topic: u32, claim_data: Bytes) -> bool {
            ci::is_claim_revoked(e, &identity, claim_topic, &claim_data)
        }
        pub fn get_current_nonce_for(e: &Env, identity: Address, claim_topic: u32) -> u32 {
            ci::get_current_nonce_for(e, &identity, claim_topic)
        }
        pub fn is_key_allowed_for_topic(e: &Env, public_key: Bytes, scheme: u32, claim_topic: u32) -> bool {
            ci::is_key_allowed_for_topic(e, &public_key, scheme, claim_topic)
        }
    }
}

//! Harness contracts for C03: collaborator mocks on the far side of the interfaces the
//! smart-account library calls (`Verifier`, `Policy`) plus a target that requires the
//! account's authorization.  None of them contains logic of the code under test.

use soroban_sdk::{auth::Context, contract, contractimpl, contracttype, xdr::ToXdr, Address, Bytes, Env, Symbol, Val, Vec};
use stellar_accounts::smart_account::{ContextRule, Signer};

// ------------------------------------------------------------------ verifier

/// One logged `verify` call.
#[contracttype]
#[derive(Clone, Debug, PartialEq)]
pub struct VerifyRec {
    pub payload: Bytes,
    pub key: Bytes,
    pub sig: Bytes,
}

#[contracttype]
pub enum VKey {
    Log,
}

/// `verify` answers by the first byte of `sig_data`: 1 => true, 2 => panic, anything else => false.
/// Append-only call log (entries of failed top-level invocations are rolled back by the host).
#[contract]
pub struct MockVerifier;

pub const SIG_GOOD: u8 = 1;
pub const SIG_PANIC: u8 = 2;
pub const SIG_FALSE: u8 = 0;

#[contractimpl]
impl MockVerifier {
    pub fn verify(e: Env, payload: Bytes, key_data: Bytes, sig_data: Bytes) -> bool {
        let mut log: Vec<VerifyRec> = e.storage().persistent().get(&VKey::Log).unwrap_or_else(|| Vec::new(&e));
        log.push_back(VerifyRec { payload, key: key_data, sig: sig_data.clone() });
        e.storage().persistent().set(&VKey::Log, &log);
        match sig_data.get(0) {
            Some(SIG_GOOD) => true,
            Some(SIG_PANIC) => panic!("mock verifier: scripted panic"),
            _ => false,
        }
    }
}

pub fn verifier_log(e: &Env, verifier: &Address) -> Vec<VerifyRec> {
    e.as_contract(verifier, || e.storage().persistent().get(&VKey::Log).unwrap_or_else(|| Vec::new(e)))
}

// ------------------------------------------------------------------ policy

/// Scripted behaviour for one (smart account, rule id).
#[contracttype]
#[derive(Clone, Debug, PartialEq)]
pub struct PolicyScript {
    /// scripted `can_enforce` answer
    pub can: bool,
    /// additionally require at least this many authenticated signers (0 = no requirement)
    pub need: u32,
    /// scripted `enforce` outcome: false => panic
    pub enforce_ok: bool,
}

/// One logged `enforce` call.
#[contracttype]
#[derive(Clone, Debug, PartialEq)]
pub struct EnforceRec {
    /// XDR of the `Context` value received (`Context` has no `PartialEq`/`Debug`)
    pub context: Bytes,
    pub signers: Vec<Signer>,
    pub rule_id: u32,
    pub account: Address,
}

#[contracttype]
pub enum PKey {
    Script(Address, u32),
    Log,
    Installed(Address, u32),
}

#[contract]
pub struct MockPolicy;

#[contractimpl]
impl MockPolicy {
    /// Read-only, as the `Policy` documentation demands.
    pub fn can_enforce(e: Env, _context: Context, authenticated_signers: Vec<Signer>, context_rule: ContextRule, smart_account: Address) -> bool {
        let s: Option<PolicyScript> = e.storage().persistent().get(&PKey::Script(smart_account, context_rule.id));
        match s {
            Some(s) => s.can && authenticated_signers.len() >= s.need,
            None => true,
        }
    }

    /// State-changing hook; authorized by the smart account (the direct caller) as the docs prescribe.
    pub fn enforce(e: Env, context: Context, authenticated_signers: Vec<Signer>, context_rule: ContextRule, smart_account: Address) {
        smart_account.require_auth();
        let mut log: Vec<EnforceRec> = e.storage().persistent().get(&PKey::Log).unwrap_or_else(|| Vec::new(&e));
        log.push_back(EnforceRec { context: context.to_xdr(&e), signers: authenticated_signers, rule_id: context_rule.id, account: smart_account.clone() });
        e.storage().persistent().set(&PKey::Log, &log);
        let s: Option<PolicyScript> = e.storage().persistent().get(&PKey::Script(smart_account, context_rule.id));
        if let Some(s) = s {
            if !s.enforce_ok {
                panic!("mock policy: scripted enforce refusal");
            }
        }
    }

    pub fn install(e: Env, _install_params: Val, context_rule: ContextRule, smart_account: Address) {
        e.storage().persistent().set(&PKey::Installed(smart_account, context_rule.id), &true);
    }

    pub fn uninstall(e: Env, context_rule: ContextRule, smart_account: Address) {
        e.storage().persistent().remove(&PKey::Installed(smart_account, context_rule.id));
    }
}

pub fn policy_set_script(e: &Env, policy: &Address, account: &Address, rule_id: u32, s: &PolicyScript) {
    e.as_contract(policy, || e.storage().persistent().set(&PKey::Script(account.clone(), rule_id), s));
}
pub fn policy_log(e: &Env, policy: &Address) -> Vec<EnforceRec> {
    e.as_contract(policy, || e.storage().persistent().get(&PKey::Log).unwrap_or_else(|| Vec::new(e)))
}

// ------------------------------------------------------------------ target

/// `do_it(account, chain)` requires `account`'s authorization and then calls the next target of
/// `chain` (with the rest of the chain), so that one authorization entry of the account covers a
/// tree of 1..3 contract-call contexts.
#[contract]
pub struct Target;

#[contracttype]
pub enum TKey {
    Calls,
}

#[contractimpl]
impl Target {
    pub fn do_it(e: Env, account: Address, chain: Vec<Address>) -> u32 {
        account.require_auth();
        let n: u32 = e.storage().persistent().get(&TKey::Calls).unwrap_or(0);
        e.storage().persistent().set(&TKey::Calls, &(n + 1));
        if let Some(next) = chain.first() {
            let rest = chain.slice(1..);
            let args: Vec<Val> = soroban_sdk::vec![&e, soroban_sdk::IntoVal::into_val(&account, &e), soroban_sdk::IntoVal::into_val(&rest, &e)];
            let _: u32 = e.invoke_contract(&next, &Symbol::new(&e, "do_it"), args);
        }
        n + 1
    }
}

pub fn target_calls(e: &Env, target: &Address) -> u32 {
    e.as_contract(target, || e.storage().persistent().get(&TKey::Calls).unwrap_or(0))
}

//! Harness contracts for C03.

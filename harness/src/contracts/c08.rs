//! Harness contracts for C08 (also used by C09 as the external target).
//!
//! `TimelockLib` forwards 1:1 to the `stellar_governance::timelock` library functions
//! (no access control — that is C09's subject) plus one read-only bulk `dump` that calls
//! the library's own getters.  `Target` counts invocations per (function, argument) and
//! has an entry point that can be scripted to fail.

pub mod timelock_lib {
    use soroban_sdk::{contract, contractimpl, BytesN, Env, Val, Vec};
    use stellar_governance::timelock::{self as tl, Operation, OperationState};

    #[contract]
    pub struct TimelockLib;

    #[contractimpl]
    impl TimelockLib {
        pub fn __constructor(e: &Env, min_delay: u32) {
            tl::set_min_delay(e, min_delay);
        }
        pub fn schedule_operation(e: &Env, operation: Operation, delay: u32) -> BytesN<32> {
            tl::schedule_operation(e, &operation, delay)
        }
        pub fn execute_operation(e: &Env, operation: Operation) -> Val {
            tl::execute_operation(e, &operation)
        }
        pub fn set_execute_operation(e: &Env, operation: Operation) {
            tl::set_execute_operation(e, &operation)
        }
        pub fn cancel_operation(e: &Env, operation_id: BytesN<32>) {
            tl::cancel_operation(e, &operation_id)
        }
        pub fn set_min_delay(e: &Env, min_delay: u32) {
            tl::set_min_delay(e, min_delay)
        }
        pub fn get_min_delay(e: &Env) -> u32 {
            tl::get_min_delay(e)
        }
        pub fn get_operation_ledger(e: &Env, operation_id: BytesN<32>) -> u32 {
            tl::get_operation_ledger(e, &operation_id)
        }
        pub fn get_operation_state(e: &Env, operation_id: BytesN<32>) -> OperationState {
            tl::get_operation_state(e, &operation_id)
        }
        pub fn operation_exists(e: &Env, operation_id: BytesN<32>) -> bool {
            tl::operation_exists(e, &operation_id)
        }
        pub fn is_operation_pending(e: &Env, operation_id: BytesN<32>) -> bool {
            tl::is_operation_pending(e, &operation_id)
        }
        pub fn is_operation_ready(e: &Env, operation_id: BytesN<32>) -> bool {
            tl::is_operation_ready(e, &operation_id)
        }
        pub fn is_operation_done(e: &Env, operation_id: BytesN<32>) -> bool {
            tl::is_operation_done(e, &operation_id)
        }
        pub fn hash_operation(e: &Env, operation: Operation) -> BytesN<32> {
            tl::hash_operation(e, &operation)
        }
        /// Bulk read through the library getters: per id
        /// `[ledger, state, exists, pending, ready, done]`, then a last row `[min_delay]`.
        pub fn dump(e: &Env, ids: Vec<BytesN<32>>) -> Vec<Vec<u32>> {
            let mut out = Vec::new(e);
            for id in ids.iter() {
                let mut row = Vec::new(e);
                row.push_back(tl::get_operation_ledger(e, &id));
                row.push_back(tl::get_operation_state(e, &id) as u32);
                row.push_back(tl::operation_exists(e, &id) as u32);
                row.push_back(tl::is_operation_pending(e, &id) as u32);
                row.push_back(tl::is_operation_ready(e, &id) as u32);
                row.push_back(tl::is_operation_done(e, &id) as u32);
                out.push_back(row);
            }
            let mut last = Vec::new(e);
            last.push_back(tl::get_min_delay(e));
            out.push_back(last);
            out
        }
    }
}

pub mod target {
    use soroban_sdk::{contract, contractimpl, contracttype, Env, Vec};

    #[contracttype]
    #[derive(Clone)]
    pub enum K {
        /// invocation count of (function id, argument)
        Count(u32, u32),
        Total,
        Fail,
    }

    #[contract]
    pub struct Target;

    fn rec(e: &Env, f: u32, x: u32) -> u32 {
        let k = K::Count(f, x);
        let c: u32 = e.storage().instance().get(&k).unwrap_or(0) + 1;
        e.storage().instance().set(&k, &c);
        let t: u32 = e.storage().instance().get(&K::Total).unwrap_or(0) + 1;
        e.storage().instance().set(&K::Total, &t);
        c
    }

    #[contractimpl]
    impl Target {
        /// function id 0
        pub fn bump(e: &Env, x: u32) -> u32 {
            rec(e, 0, x)
        }
        /// function id 1: records first, THEN fails when scripted to (so a missing
        /// rollback would be visible in the counters)
        pub fn flaky(e: &Env, x: u32) -> u32 {
            let c = rec(e, 1, x);
            if e.storage().instance().get::<_, bool>(&K::Fail).unwrap_or(false) {
                panic!("scripted failure");
            }
            c
        }
        /// function id 2
        pub fn pair(e: &Env, x: u32, y: u32) -> u32 {
            rec(e, 2, x.wrapping_mul(1000).wrapping_add(y))
        }
        pub fn set_fail(e: &Env, on: bool) {
            e.storage().instance().set(&K::Fail, &on);
        }
        /// counts for the given (function id, argument) keys, then the total
        pub fn report(e: &Env, keys: Vec<(u32, u32)>) -> Vec<u32> {
            let mut out = Vec::new(e);
            for (f, x) in keys.iter() {
                out.push_back(e.storage().instance().get(&K::Count(f, x)).unwrap_or(0));
            }
            out.push_back(e.storage().instance().get(&K::Total).unwrap_or(0));
            out
        }
    }
}

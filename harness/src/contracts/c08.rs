//! Harness contracts for C08.

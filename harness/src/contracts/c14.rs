//! Harness contracts for C14.

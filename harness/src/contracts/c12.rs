//! Harness contract for C12 (`MathLib`, DESIGN Appendix A): forwards 1:1 to the public
//! fixed-point API of `stellar_contract_utils::math`.  No behaviour of its own: the
//! `Wad` newtype is unwrapped with `raw()` / wrapped with `from_raw()` only because it is
//! not a contract type.

pub mod mathlib {
    use soroban_sdk::{contract, contractimpl, Env, I256};
    use stellar_contract_utils::math::{
        checked_mul_div_i128, checked_mul_div_i256, mul_div_i128, mul_div_i256, wad::Wad, Rounding, SorobanMulDiv,
    };

    #[contract]
    pub struct MathLib;

    #[contractimpl]
    impl MathLib {
        // ---- free functions
        pub fn mul_div_i128(e: &Env, x: i128, y: i128, d: i128, r: Rounding) -> i128 {
            mul_div_i128(e, x, y, d, r)
        }
        pub fn checked_mul_div_i128(e: &Env, x: i128, y: i128, d: i128, r: Rounding) -> Option<i128> {
            checked_mul_div_i128(e, x, y, d, r)
        }
        pub fn mul_div_i256(e: &Env, x: I256, y: I256, d: I256, r: Rounding) -> I256 {
            mul_div_i256(e, x, y, d, r)
        }
        pub fn checked_mul_div_i256(e: &Env, x: I256, y: I256, d: I256, r: Rounding) -> Option<I256> {
            checked_mul_div_i256(e, x, y, d, r)
        }
        // ---- trait methods (`SorobanMulDiv for i128`), addressed by the same Rounding selector
        pub fn t_mul_div(e: &Env, x: i128, y: i128, d: i128, r: Rounding) -> i128 {
            match r {
                Rounding::Floor => x.mul_div_floor(e, &y, &d),
                Rounding::Ceil => x.mul_div_ceil(e, &y, &d),
                Rounding::Truncate => x.mul_div(e, &y, &d),
            }
        }
        // ---- Wad
        pub fn wad_checked_mul(e: &Env, a: i128, b: i128) -> Option<i128> {
            Wad::from_raw(a).checked_mul(e, Wad::from_raw(b)).map(|w| w.raw())
        }
        pub fn wad_checked_div(e: &Env, a: i128, b: i128) -> Option<i128> {
            Wad::from_raw(a).checked_div(e, Wad::from_raw(b)).map(|w| w.raw())
        }
        pub fn wad_from_ratio(e: &Env, num: i128, den: i128) -> i128 {
            Wad::from_ratio(e, num, den).raw()
        }
        pub fn wad_pow(e: &Env, x: i128, n: u32) -> i128 {
            Wad::from_raw(x).pow(e, n).raw()
        }
        pub fn wad_checked_pow(e: &Env, x: i128, n: u32) -> Option<i128> {
            Wad::from_raw(x).checked_pow(e, n).map(|w| w.raw())
        }
    }
}

//! Harness contracts for C12.

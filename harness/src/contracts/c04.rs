//! Harness contracts for C04.

//! Harness contracts for C04 (also usable as an RWA flavour by the fungible checks C01/C02).
//!
//! * `rwa_tok::RwaTok` — thin wiring of `RWAToken` + `Pausable` + `FungibleToken<ContractType = RWA>`
//!   over `RWA::*` / `pausable::*` exactly as the trait documentation prescribes.  Every supervisory
//!   entry point takes an `operator` (resp. `caller`) that must `require_auth()` and equal the stored admin.
//!   No logic of its own.
//! * `mock_compliance::MockCompliance` — collaborator on the far side of `ComplianceClient`:
//!   scripted `can_transfer` / `can_create`, append-only log of `transferred` / `created` / `destroyed`.
//!   It ALSO answers the `ComplianceModuleClient` interface (`on_transfer` / `on_created` / `on_destroyed`,
//!   same `can_*` signatures) so that it can sit behind the library's own modular compliance contract.
//! * `lib_compliance::LibCompliance` — the library's modular compliance (`rwa::compliance::storage::*`
//!   + token binder) wired without access control (set-up only); used by a tenth of the cases.
//! * `mock_idv::MockIdVerifier` — collaborator on the far side of `IdentityVerifierClient`:
//!   per-account pass/fail (`verify_identity` panics with `IdentityVerificationFailed` like the real one),
//!   scripted `recovery_target(old_account) -> Option<Address>`.

pub mod rwa_tok {
    use soroban_sdk::{contract, contractimpl, symbol_short, Address, Env, MuxedAddress, String, Symbol};
    use stellar_contract_utils::pausable::{self as pausable, Pausable};
    use stellar_tokens::fungible::{Base, FungibleToken};
    use stellar_tokens::rwa::{RWAToken, RWA};
    const ADMIN: Symbol = symbol_short!("ADMIN");

    #[contract]
    pub struct RwaTok;

    /// `operator.require_auth()` + operator must be the stored admin (stands for the RBAC check the docs ask for)
    fn operator_auth(e: &Env, operator: &Address) {
        operator.require_auth();
        let admin: Address = e.storage().instance().get(&ADMIN).unwrap();
        if admin != *operator {
            panic!("not the operator");
        }
    }

    #[contractimpl]
    impl RwaTok {
        pub fn __constructor(e: &Env, admin: Address, compliance: Address, identity_verifier: Address) {
            Base::set_metadata(e, 7, String::from_str(e, "Rwa"), String::from_str(e, "RWA"));
            e.storage().instance().set(&ADMIN, &admin);
            RWA::set_compliance(e, &compliance);
            RWA::set_identity_verifier(e, &identity_verifier);
        }
    }

    #[contractimpl(contracttrait)]
    impl FungibleToken for RwaTok {
        type ContractType = RWA;
    }

    #[contractimpl]
    impl Pausable for RwaTok {
        fn paused(e: &Env) -> bool {
            pausable::paused(e)
        }
        fn pause(e: &Env, caller: Address) {
            operator_auth(e, &caller);
            pausable::pause(e);
        }
        fn unpause(e: &Env, caller: Address) {
            operator_auth(e, &caller);
            pausable::unpause(e);
        }
    }

    #[contractimpl]
    impl RWAToken for RwaTok {
        fn forced_transfer(e: &Env, from: Address, to: Address, amount: i128, operator: Address) {
            operator_auth(e, &operator);
            RWA::forced_transfer(e, &from, &to, amount);
        }
        fn mint(e: &Env, to: Address, amount: i128, operator: Address) {
            operator_auth(e, &operator);
            RWA::mint(e, &to, amount);
        }
        fn burn(e: &Env, user_address: Address, amount: i128, operator: Address) {
            operator_auth(e, &operator);
            RWA::burn(e, &user_address, amount);
        }
        fn recover_balance(e: &Env, old_account: Address, new_account: Address, operator: Address) -> bool {
            operator_auth(e, &operator);
            RWA::recover_balance(e, &old_account, &new_account)
        }
        fn set_address_frozen(e: &Env, user_address: Address, freeze: bool, operator: Address) {
            operator_auth(e, &operator);
            RWA::set_address_frozen(e, &user_address, freeze);
        }
        fn freeze_partial_tokens(e: &Env, user_address: Address, amount: i128, operator: Address) {
            operator_auth(e, &operator);
            RWA::freeze_partial_tokens(e, &user_address, amount);
        }
        fn unfreeze_partial_tokens(e: &Env, user_address: Address, amount: i128, operator: Address) {
            operator_auth(e, &operator);
            RWA::unfreeze_partial_tokens(e, &user_address, amount);
        }
        fn is_frozen(e: &Env, user_address: Address) -> bool {
            RWA::is_frozen(e, &user_address)
        }
        fn get_frozen_tokens(e: &Env, user_address: Address) -> i128 {
            RWA::get_frozen_tokens(e, &user_address)
        }
        fn version(e: &Env) -> String {
            RWA::version(e)
        }
        fn onchain_id(e: &Env) -> Address {
            RWA::onchain_id(e)
        }
        fn set_compliance(e: &Env, compliance: Address, operator: Address) {
            operator_auth(e, &operator);
            RWA::set_compliance(e, &compliance);
        }
        fn compliance(e: &Env) -> Address {
            RWA::compliance(e)
        }
        fn set_identity_verifier(e: &Env, identity_verifier: Address, operator: Address) {
            operator_auth(e, &operator);
            RWA::set_identity_verifier(e, &identity_verifier);
        }
        fn identity_verifier(e: &Env) -> Address {
            RWA::identity_verifier(e)
        }
    }
}

pub mod mock_compliance {
    use soroban_sdk::{contract, contractimpl, contracttype, symbol_short, Address, Env, Symbol, Vec};
    const TX_OK: Symbol = symbol_short!("tx_ok");
    const MINT_OK: Symbol = symbol_short!("mint_ok");
    const LOG: Symbol = symbol_short!("log");

    pub const TRANSFERRED: u32 = 1;
    pub const CREATED: u32 = 2;
    pub const DESTROYED: u32 = 3;

    /// one notification, with the exact arguments received (`to == from` for created / destroyed)
    #[contracttype]
    #[derive(Clone, Debug, PartialEq, Eq)]
    pub struct Note {
        pub kind: u32,
        pub from: Address,
        pub to: Address,
        pub amount: i128,
        pub token: Address,
    }

    #[contract]
    pub struct MockCompliance;

    fn push(e: &Env, n: Note) {
        let mut v: Vec<Note> = e.storage().persistent().get(&LOG).unwrap_or(Vec::new(e));
        v.push_back(n);
        e.storage().persistent().set(&LOG, &v);
    }

    #[contractimpl]
    impl MockCompliance {
        // ---- scripting / observation (test side)
        pub fn set_can_transfer(e: &Env, ok: bool) {
            e.storage().persistent().set(&TX_OK, &ok);
        }
        pub fn set_can_create(e: &Env, ok: bool) {
            e.storage().persistent().set(&MINT_OK, &ok);
        }
        pub fn log(e: &Env) -> Vec<Note> {
            e.storage().persistent().get(&LOG).unwrap_or(Vec::new(e))
        }
        pub fn clear_log(e: &Env) {
            e.storage().persistent().remove(&LOG);
        }

        // ---- `ComplianceClient` surface the token calls (and the `can_*` half of `ComplianceModuleClient`)
        pub fn can_transfer(e: &Env, _from: Address, _to: Address, _amount: i128, _token: Address) -> bool {
            e.storage().persistent().get(&TX_OK).unwrap_or(true)
        }
        pub fn can_create(e: &Env, _to: Address, _amount: i128, _token: Address) -> bool {
            e.storage().persistent().get(&MINT_OK).unwrap_or(true)
        }
        pub fn transferred(e: &Env, from: Address, to: Address, amount: i128, token: Address) {
            push(e, Note { kind: TRANSFERRED, from, to, amount, token });
        }
        pub fn created(e: &Env, to: Address, amount: i128, token: Address) {
            push(e, Note { kind: CREATED, from: to.clone(), to, amount, token });
        }
        pub fn destroyed(e: &Env, from: Address, amount: i128, token: Address) {
            push(e, Note { kind: DESTROYED, from: from.clone(), to: from, amount, token });
        }

        // ---- `ComplianceModuleClient` notification half (when registered as a module of `LibCompliance`)
        pub fn on_transfer(e: &Env, from: Address, to: Address, amount: i128, token: Address) {
            push(e, Note { kind: TRANSFERRED, from, to, amount, token });
        }
        pub fn on_created(e: &Env, to: Address, amount: i128, token: Address) {
            push(e, Note { kind: CREATED, from: to.clone(), to, amount, token });
        }
        pub fn on_destroyed(e: &Env, from: Address, amount: i128, token: Address) {
            push(e, Note { kind: DESTROYED, from: from.clone(), to: from, amount, token });
        }
    }
}

pub mod lib_compliance {
    use soroban_sdk::{contract, contractimpl, Address, Env, Vec};
    use stellar_tokens::rwa::compliance::{storage as cs, ComplianceHook};
    use stellar_tokens::rwa::utils::token_binder as binder;

    /// The library's modular compliance contract; module / token management is left open (set-up only,
    /// its access control is not the subject of C04).
    #[contract]
    pub struct LibCompliance;

    #[contractimpl]
    impl LibCompliance {
        pub fn bind_token(e: &Env, token: Address) {
            binder::bind_token(e, &token);
        }
        pub fn add_module_to(e: &Env, hook: ComplianceHook, module: Address) {
            cs::add_module_to(e, hook, module);
        }
        pub fn get_modules_for_hook(e: &Env, hook: ComplianceHook) -> Vec<Address> {
            cs::get_modules_for_hook(e, hook)
        }
        pub fn transferred(e: &Env, from: Address, to: Address, amount: i128, token: Address) {
            cs::transferred(e, from, to, amount, token);
        }
        pub fn created(e: &Env, to: Address, amount: i128, token: Address) {
            cs::created(e, to, amount, token);
        }
        pub fn destroyed(e: &Env, from: Address, amount: i128, token: Address) {
            cs::destroyed(e, from, amount, token);
        }
        pub fn can_transfer(e: &Env, from: Address, to: Address, amount: i128, token: Address) -> bool {
            cs::can_transfer(e, from, to, amount, token)
        }
        pub fn can_create(e: &Env, to: Address, amount: i128, token: Address) -> bool {
            cs::can_create(e, to, amount, token)
        }
    }
}

pub mod mock_idv {
    use soroban_sdk::{contract, contractimpl, contracttype, panic_with_error, Address, Env};
    use stellar_tokens::rwa::RWAError;

    #[contracttype]
    pub enum Key {
        /// explicit verdict for one account
        Ok(Address),
        /// verdict for accounts without an explicit one
        Default,
        /// scripted recovery target of an old account
        Recovery(Address),
    }

    #[contract]
    pub struct MockIdVerifier;

    #[contractimpl]
    impl MockIdVerifier {
        // ---- scripting (test side)
        pub fn set_identity(e: &Env, account: Address, ok: bool) {
            e.storage().persistent().set(&Key::Ok(account), &ok);
        }
        pub fn set_default(e: &Env, ok: bool) {
            e.storage().persistent().set(&Key::Default, &ok);
        }
        pub fn set_recovery_target(e: &Env, old_account: Address, target: Option<Address>) {
            match target {
                Some(t) => e.storage().persistent().set(&Key::Recovery(old_account), &t),
                None => e.storage().persistent().remove(&Key::Recovery(old_account)),
            }
        }
        pub fn identity_ok(e: &Env, account: Address) -> bool {
            let d: bool = e.storage().persistent().get(&Key::Default).unwrap_or(true);
            e.storage().persistent().get(&Key::Ok(account)).unwrap_or(d)
        }

        // ---- `IdentityVerifierClient` surface the token calls
        pub fn verify_identity(e: &Env, account: Address) {
            if !Self::identity_ok(e, account) {
                panic_with_error!(e, RWAError::IdentityVerificationFailed)
            }
        }
        pub fn recovery_target(e: &Env, old_account: Address) -> Option<Address> {
            e.storage().persistent().get(&Key::Recovery(old_account))
        }
    }
}

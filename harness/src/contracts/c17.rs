//! Harness contracts for C17 (DESIGN Appendix A: `MerkleLib`, `Distrib`).
//!
//! `MerkleLib` forwards 1:1 to `Verifier::<Sha256|Keccak256>::{verify, verify_with_index}`.
//! `DistribSha` / `DistribKec` wire `MerkleDistributor::<H>` exactly as the module docs and the
//! two examples do (a `#[contracttype]` leaf with an `index: u32` field implementing
//! `IndexableLeaf`), with a settable root (`set_root` carries no authorization of its own in the
//! library; authorization is not the subject of C17, so the harness adds none).

pub mod merkle_lib {
    use soroban_sdk::{contract, contractimpl, BytesN, Env, Vec};
    use stellar_contract_utils::crypto::{keccak::Keccak256, merkle::Verifier, sha256::Sha256};

    #[contract]
    pub struct MerkleLib;

    #[contractimpl]
    impl MerkleLib {
        pub fn verify_sha(e: &Env, proof: Vec<BytesN<32>>, root: BytesN<32>, leaf: BytesN<32>) -> bool {
            Verifier::<Sha256>::verify(e, proof, root, leaf)
        }
        pub fn verify_kec(e: &Env, proof: Vec<BytesN<32>>, root: BytesN<32>, leaf: BytesN<32>) -> bool {
            Verifier::<Keccak256>::verify(e, proof, root, leaf)
        }
        pub fn verify_idx_sha(e: &Env, proof: Vec<BytesN<32>>, root: BytesN<32>, leaf: BytesN<32>, index: u32) -> bool {
            Verifier::<Sha256>::verify_with_index(e, proof, root, leaf, index)
        }
        pub fn verify_idx_kec(e: &Env, proof: Vec<BytesN<32>>, root: BytesN<32>, leaf: BytesN<32>, index: u32) -> bool {
            Verifier::<Keccak256>::verify_with_index(e, proof, root, leaf, index)
        }
    }
}

/// Leaf type shared by both distributor flavours (same shape as the module-doc example and the
/// airdrop example's `Receiver`).
pub mod leaf {
    use soroban_sdk::{contracttype, Address};
    use stellar_contract_utils::merkle_distributor::IndexableLeaf;

    #[contracttype]
    #[derive(Clone, Debug)]
    pub struct Leaf {
        pub index: u32,
        pub address: Address,
        pub amount: i128,
    }

    impl IndexableLeaf for Leaf {
        fn index(&self) -> u32 {
            self.index
        }
    }
}

macro_rules! distrib_contract {
    ($modname:ident, $name:ident, $hasher:path) => {
        pub mod $modname {
            use super::leaf::Leaf;
            use soroban_sdk::{contract, contractimpl, BytesN, Env, Vec};
            use stellar_contract_utils::merkle_distributor::MerkleDistributor;

            type D = MerkleDistributor<$hasher>;

            #[contract]
            pub struct $name;

            #[contractimpl]
            impl $name {
                pub fn set_root(e: &Env, root: BytesN<32>) {
                    D::set_root(e, root);
                }
                pub fn get_root(e: &Env) -> BytesN<32> {
                    D::get_root(e)
                }
                pub fn is_claimed(e: &Env, index: u32) -> bool {
                    D::is_claimed(e, index)
                }
                /// `verify_and_set_claimed` (sorted-pair trees)
                pub fn claim_sorted(e: &Env, leaf: Leaf, proof: Vec<BytesN<32>>) {
                    D::verify_and_set_claimed(e, leaf, proof);
                }
                /// `verify_with_index_and_set_claimed` (positional trees)
                pub fn claim_indexed(e: &Env, leaf: Leaf, proof: Vec<BytesN<32>>) {
                    D::verify_with_index_and_set_claimed(e, leaf, proof);
                }
                /// bulk read: `is_claimed` for every listed index (one invocation)
                pub fn dump(e: &Env, indices: Vec<u32>) -> Vec<bool> {
                    let mut out = Vec::new(e);
                    for i in indices.iter() {
                        out.push_back(D::is_claimed(e, i));
                    }
                    out
                }
            }
        }
    };
}

distrib_contract!(distrib_sha, DistribSha, stellar_contract_utils::crypto::sha256::Sha256);
distrib_contract!(distrib_kec, DistribKec, stellar_contract_utils::crypto::keccak::Keccak256);

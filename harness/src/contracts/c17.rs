//! Harness contracts for C17.

//! Harness contracts for C02.

//! Harness contracts for C20.

//! Harness contracts for C20 (first half: RWA identity-side registries).
//!
//! Thin wiring of the library's registry functions (DESIGN Appendix A): every entry point only
//! forwards to the library function of the same name.  Authorization is not C20's subject, so
//! the entry points perform no `require_auth` (the `operator` arguments of the library traits are
//! accepted and ignored).  Two scriptable collaborators: `RegistryMock` (answers
//! `has_claim_topic`, consulted by `claim_issuer::allow_key`) and `IssuerMock` (answers
//! `is_claim_valid`, consulted by `identity_claims::add_claim`).

/// `claim_topics_and_issuers` registry.
pub mod cti {
    use soroban_sdk::{contract, contractimpl, Address, Env, Map, Vec};
    use stellar_tokens::rwa::claim_topics_and_issuers::{storage as s, ClaimTopicsAndIssuers};

    #[contract]
    pub struct Cti;

    #[contractimpl]
    impl ClaimTopicsAndIssuers for Cti {
        fn add_claim_topic(e: &Env, claim_topic: u32, _operator: Address) {
            s::add_claim_topic(e, claim_topic)
        }
        fn remove_claim_topic(e: &Env, claim_topic: u32, _operator: Address) {
            s::remove_claim_topic(e, claim_topic)
        }
        fn get_claim_topics(e: &Env) -> Vec<u32> {
            s::get_claim_topics(e)
        }
        fn add_trusted_issuer(e: &Env, trusted_issuer: Address, claim_topics: Vec<u32>, _operator: Address) {
            s::add_trusted_issuer(e, &trusted_issuer, &claim_topics)
        }
        fn remove_trusted_issuer(e: &Env, trusted_issuer: Address, _operator: Address) {
            s::remove_trusted_issuer(e, &trusted_issuer)
        }
        fn update_issuer_claim_topics(e: &Env, trusted_issuer: Address, claim_topics: Vec<u32>, _operator: Address) {
            s::update_issuer_claim_topics(e, &trusted_issuer, &claim_topics)
        }
        fn get_trusted_issuers(e: &Env) -> Vec<Address> {
            s::get_trusted_issuers(e)
        }
        fn get_claim_topic_issuers(e: &Env, claim_topic: u32) -> Vec<Address> {
            s::get_claim_topic_issuers(e, claim_topic)
        }
        fn get_claim_topics_and_issuers(e: &Env) -> Map<u32, Vec<Address>> {
            s::get_claim_topics_and_issuers(e)
        }
        fn is_trusted_issuer(e: &Env, issuer: Address) -> bool {
            s::is_trusted_issuer(e, &issuer)
        }
        fn get_trusted_issuer_claim_topics(e: &Env, trusted_issuer: Address) -> Vec<u32> {
            s::get_trusted_issuer_claim_topics(e, &trusted_issuer)
        }
        fn has_claim_topic(e: &Env, issuer: Address, claim_topic: u32) -> bool {
            s::has_claim_topic(e, &issuer, claim_topic)
        }
    }
}

/// Scriptable stand-in for a `claim_topics_and_issuers` registry as seen by a claim issuer:
/// `has_claim_topic` answers what the script says (default `true`).
pub mod registry_mock {
    use soroban_sdk::{contract, contractimpl, contracttype, Address, Env};

    #[contracttype]
    pub enum RegKey {
        Answer(u32),
    }

    #[contract]
    pub struct RegistryMock;

    #[contractimpl]
    impl RegistryMock {
        /// answer for `claim_topic`: 0 = false, 1 = true, anything else = the call fails
        pub fn set_answer(e: &Env, claim_topic: u32, answer: u32) {
            e.storage().persistent().set(&RegKey::Answer(claim_topic), &answer);
        }
        pub fn has_claim_topic(e: &Env, _issuer: Address, claim_topic: u32) -> bool {
            match e.storage().persistent().get::<_, u32>(&RegKey::Answer(claim_topic)).unwrap_or(1) {
                0 => false,
                1 => true,
                _ => panic!("registry mock: scripted failure"),
            }
        }
    }
}

/// Key-management part of a claim issuer.
pub mod issuer_keys {
    use soroban_sdk::{contract, contractimpl, Address, Bytes, Env, Vec};
    use stellar_tokens::rwa::claim_issuer as ci;

    #[contract]
    pub struct IssuerKeys;

    #[contractimpl]
    impl IssuerKeys {
        pub fn allow_key(e: &Env, public_key: Bytes, registry: Address, scheme: u32, claim_topic: u32) {
            ci::allow_key(e, &public_key, &registry, scheme, claim_topic)
        }
        pub fn remove_key(e: &Env, public_key: Bytes, registry: Address, scheme: u32, claim_topic: u32) {
            ci::remove_key(e, &public_key, &registry, scheme, claim_topic)
        }
        pub fn is_key_allowed_for_topic(e: &Env, public_key: Bytes, scheme: u32, claim_topic: u32) -> bool {
            ci::is_key_allowed_for_topic(e, &public_key, scheme, claim_topic)
        }
        pub fn is_key_allowed_for_registry(e: &Env, public_key: Bytes, scheme: u32, registry: Address) -> bool {
            ci::is_key_allowed_for_registry(e, &public_key, scheme, &registry)
        }
        pub fn get_keys_for_topic(e: &Env, claim_topic: u32) -> Vec<ci::SigningKey> {
            ci::get_keys_for_topic(e, claim_topic)
        }
        pub fn get_registries(e: &Env, public_key: Bytes, scheme: u32) -> Vec<Address> {
            ci::get_registries(e, &ci::SigningKey { public_key, scheme })
        }
    }
}

/// Identity registry storage.
pub mod irs {
    use soroban_sdk::{contract, contractimpl, Address, Env, Vec};
    use stellar_tokens::rwa::identity_registry_storage as s;

    #[contract]
    pub struct Irs;

    #[contractimpl]
    impl Irs {
        pub fn add_identity(e: &Env, account: Address, identity: Address, identity_type: s::IdentityType, country_data_list: Vec<s::CountryData>) {
            s::add_identity(e, &account, &identity, identity_type, &country_data_list)
        }
        pub fn remove_identity(e: &Env, account: Address) {
            s::remove_identity(e, &account)
        }
        pub fn modify_identity(e: &Env, account: Address, identity: Address) {
            s::modify_identity(e, &account, &identity)
        }
        pub fn recover_identity(e: &Env, old_account: Address, new_account: Address) {
            s::recover_identity(e, &old_account, &new_account)
        }
        pub fn add_country_data_entries(e: &Env, account: Address, country_data_list: Vec<s::CountryData>) {
            s::add_country_data_entries(e, &account, &country_data_list)
        }
        pub fn modify_country_data(e: &Env, account: Address, index: u32, country_data: s::CountryData) {
            s::modify_country_data(e, &account, index, &country_data)
        }
        pub fn delete_country_data(e: &Env, account: Address, index: u32) {
            s::delete_country_data(e, &account, index)
        }
        pub fn stored_identity(e: &Env, account: Address) -> Address {
            s::stored_identity(e, &account)
        }
        pub fn get_identity_profile(e: &Env, account: Address) -> s::IdentityProfile {
            s::get_identity_profile(e, &account)
        }
        pub fn get_recovered_to(e: &Env, old_account: Address) -> Option<Address> {
            s::get_recovered_to(e, &old_account)
        }
        pub fn get_country_data_entries(e: &Env, account: Address) -> Vec<s::CountryData> {
            s::get_country_data_entries(e, &account)
        }
        pub fn get_country_data(e: &Env, account: Address, index: u32) -> s::CountryData {
            s::get_country_data(e, &account, index)
        }
    }
}

/// Scriptable claim issuer: `is_claim_valid` panics (as the trait documents for an invalid
/// claim) for the topics the script marked invalid.
pub mod issuer_mock {
    use soroban_sdk::{contract, contractimpl, contracttype, panic_with_error, Address, Bytes, Env};
    use stellar_tokens::rwa::{claim_issuer::ClaimIssuer, identity_claims::ClaimsError};

    #[contracttype]
    pub enum IssuerKey {
        Invalid(u32),
    }

    #[contract]
    pub struct IssuerMock;

    #[contractimpl]
    impl IssuerMock {
        pub fn set_valid(e: &Env, claim_topic: u32, valid: bool) {
            e.storage().persistent().set(&IssuerKey::Invalid(claim_topic), &!valid);
        }
    }

    #[contractimpl]
    impl ClaimIssuer for IssuerMock {
        fn is_claim_valid(e: &Env, _identity: Address, claim_topic: u32, _scheme: u32, _sig_data: Bytes, _claim_data: Bytes) {
            if e.storage().persistent().get::<_, bool>(&IssuerKey::Invalid(claim_topic)).unwrap_or(false) {
                panic_with_error!(e, ClaimsError::ClaimNotValid)
            }
        }
    }
}

/// On-chain identity holding claims.
pub mod ident {
    use soroban_sdk::{contract, contractimpl, Address, Bytes, BytesN, Env, String, Vec};
    use stellar_tokens::rwa::identity_claims::{self as ic, Claim, IdentityClaims};

    #[contract]
    pub struct Ident;

    #[contractimpl]
    impl IdentityClaims for Ident {
        fn add_claim(e: &Env, topic: u32, scheme: u32, issuer: Address, signature: Bytes, data: Bytes, uri: String) -> BytesN<32> {
            ic::add_claim(e, topic, scheme, &issuer, &signature, &data, &uri)
        }
        fn get_claim(e: &Env, claim_id: BytesN<32>) -> Claim {
            ic::get_claim(e, &claim_id)
        }
        fn get_claim_ids_by_topic(e: &Env, topic: u32) -> Vec<BytesN<32>> {
            ic::get_claim_ids_by_topic(e, topic)
        }
    }

    #[contractimpl]
    impl Ident {
        pub fn remove_claim(e: &Env, claim_id: BytesN<32>) {
            ic::remove_claim(e, &claim_id)
        }
    }
}

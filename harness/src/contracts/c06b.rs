//! Example contracts needed only by the C06 `example-guards` audit and not listed in
//! `examples.rs`: the two Stellar-Asset-Contract administrator examples.  They are compiled
//! from the working tree exactly like the modules of `examples.rs`.
#![allow(dead_code, unused_imports, clippy::all)]

pub mod sac_admin_wrapper {
    #[path = "/repo/examples/sac-admin-wrapper/src/contract.rs"]
    pub mod contract;
}

pub mod sac_admin_generic {
    #[path = "/repo/examples/sac-admin-generic/src/contract.rs"]
    pub mod contract;
}

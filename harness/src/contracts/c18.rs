//! Harness contracts for C18.

//! Harness contracts for C18: `VerifierLib` forwards 1:1 to the verifier library functions
//! (DESIGN Appendix A), so that a contract error / host trap / panic inside them is observed
//! as `Err` through `envx::call`.

pub mod verifier_lib {
    use soroban_sdk::{contract, contractimpl, Bytes, BytesN, Env};
    use stellar_accounts::verifiers::{
        ed25519,
        utils::{base64_url_encode, extract_from_bytes},
        webauthn::{self, WebAuthnSigData},
    };

    /// size of the destination buffer handed to `base64_url_encode`; pre-filled with `B64_SENTINEL`
    pub const B64_DST: usize = 512;
    pub const B64_SENTINEL: u8 = 0xAA;
    /// largest source the wrapper accepts (4*ceil(n/3) <= B64_DST)
    pub const B64_MAX_SRC: u32 = 384;

    #[contract]
    pub struct VerifierLib;

    fn extract_n<const N: usize>(e: &Env, data: &Bytes, kind: u32, a: u32, b: u32) -> Option<Bytes> {
        let r: Option<BytesN<N>> = match kind {
            0 => extract_from_bytes(e, data, a..b),
            1 => extract_from_bytes(e, data, a..=b),
            2 => extract_from_bytes(e, data, a..),
            3 => extract_from_bytes(e, data, ..b),
            4 => extract_from_bytes(e, data, ..=b),
            _ => extract_from_bytes(e, data, ..),
        };
        r.map(|x| Bytes::from_array(e, &x.to_array()))
    }

    #[contractimpl]
    impl VerifierLib {
        /// `webauthn::verify` with the library's own `WebAuthnSigData` contract type
        pub fn webauthn_verify(e: &Env, payload: Bytes, pub_key: BytesN<65>, sig_data: WebAuthnSigData) -> bool {
            webauthn::verify(e, &payload, &pub_key, &sig_data)
        }

        pub fn ed25519_verify(e: &Env, payload: Bytes, public_key: BytesN<32>, signature: BytesN<64>) -> bool {
            ed25519::verify(e, &payload, &public_key, &signature)
        }

        /// Returns the WHOLE destination buffer (sentinel-filled before the call) so that the
        /// caller sees both the encoded prefix and any byte written beyond it.
        pub fn b64(e: &Env, src: Bytes) -> Bytes {
            if src.len() > B64_MAX_SRC {
                panic!("harness: source too long for the fixed destination");
            }
            let mut s = [0u8; B64_MAX_SRC as usize];
            let n = src.len() as usize;
            src.copy_into_slice(&mut s[..n]);
            let mut dst = [B64_SENTINEL; B64_DST];
            base64_url_encode(&mut dst, &s[..n]);
            Bytes::from_array(e, &dst)
        }

        /// exactly the call `validate_challenge` makes: 32-byte source, 43-byte destination
        pub fn b64_32(e: &Env, src: BytesN<32>) -> Bytes {
            let mut dst = [0u8; 43];
            base64_url_encode(&mut dst, &src.to_array());
            Bytes::from_array(e, &dst)
        }

        /// `extract_from_bytes::<N>(data, range)`; kind 0 `a..b`, 1 `a..=b`, 2 `a..`, 3 `..b`, 4 `..=b`, 5 `..`
        pub fn extract(e: &Env, data: Bytes, n: u32, kind: u32, a: u32, b: u32) -> Option<Bytes> {
            match n {
                1 => extract_n::<1>(e, &data, kind, a, b),
                2 => extract_n::<2>(e, &data, kind, a, b),
                4 => extract_n::<4>(e, &data, kind, a, b),
                32 => extract_n::<32>(e, &data, kind, a, b),
                64 => extract_n::<64>(e, &data, kind, a, b),
                65 => extract_n::<65>(e, &data, kind, a, b),
                _ => panic!("harness: unsupported N"),
            }
        }
    }
}

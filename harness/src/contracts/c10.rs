//! Harness contracts for C10.

//! Harness NFT contracts for C10 / C11: thin twins of the three example wirings
//! (`examples/nft-sequential-minting`, `nft-enumerable`, `nft-consecutive`) that add the
//! explicit-id mint entry points the examples do not expose.  They only forward to the
//! library (DESIGN Appendix A); every mint entry point requires the admin's authorization,
//! exactly like the examples' `owner.require_auth()`.
//!
//! Constructor shape is the examples' one: `(base_uri, name, symbol, admin)`.

pub mod nft_base_x {
    use soroban_sdk::{contract, contractimpl, symbol_short, Address, Env, String, Symbol};
    use stellar_tokens::non_fungible::{burnable::NonFungibleBurnable, Base, NonFungibleToken};
    const ADMIN: Symbol = symbol_short!("ADMIN");

    #[contract]
    pub struct NftBaseX;

    #[contractimpl]
    impl NftBaseX {
        pub fn __constructor(e: &Env, uri: String, name: String, symbol: String, admin: Address) {
            e.storage().instance().set(&ADMIN, &admin);
            Base::set_metadata(e, uri, name, symbol);
        }
        /// sequential mint (low id range)
        pub fn mint(e: &Env, to: Address) -> u32 {
            let admin: Address = e.storage().instance().get(&ADMIN).unwrap();
            admin.require_auth();
            Base::sequential_mint(e, &to)
        }
        /// explicit-id mint; uniqueness of `token_id` is the caller's duty (see `Base::mint` docs)
        pub fn mint_id(e: &Env, to: Address, token_id: u32) {
            let admin: Address = e.storage().instance().get(&ADMIN).unwrap();
            admin.require_auth();
            Base::mint(e, &to, token_id);
        }
    }
    #[contractimpl(contracttrait)]
    impl NonFungibleToken for NftBaseX {
        type ContractType = Base;
    }
    #[contractimpl(contracttrait)]
    impl NonFungibleBurnable for NftBaseX {}
}

pub mod nft_enum_x {
    use soroban_sdk::{contract, contractimpl, symbol_short, Address, Env, String, Symbol};
    use stellar_tokens::non_fungible::{
        burnable::NonFungibleBurnable,
        enumerable::{Enumerable, NonFungibleEnumerable},
        Base, NonFungibleToken,
    };
    const ADMIN: Symbol = symbol_short!("ADMIN");

    #[contract]
    pub struct NftEnumX;

    #[contractimpl]
    impl NftEnumX {
        pub fn __constructor(e: &Env, uri: String, name: String, symbol: String, admin: Address) {
            e.storage().instance().set(&ADMIN, &admin);
            Base::set_metadata(e, uri, name, symbol);
        }
        pub fn mint(e: &Env, to: Address) -> u32 {
            let admin: Address = e.storage().instance().get(&ADMIN).unwrap();
            admin.require_auth();
            Enumerable::sequential_mint(e, &to)
        }
        pub fn mint_id(e: &Env, to: Address, token_id: u32) {
            let admin: Address = e.storage().instance().get(&ADMIN).unwrap();
            admin.require_auth();
            Enumerable::non_sequential_mint(e, &to, token_id);
        }
    }
    #[contractimpl(contracttrait)]
    impl NonFungibleToken for NftEnumX {
        type ContractType = Enumerable;
    }
    #[contractimpl(contracttrait)]
    impl NonFungibleEnumerable for NftEnumX {}
    #[contractimpl(contracttrait)]
    impl NonFungibleBurnable for NftEnumX {}
}

pub mod nft_cons_x {
    use soroban_sdk::{contract, contractimpl, symbol_short, Address, Env, String, Symbol};
    use stellar_tokens::non_fungible::{
        burnable::NonFungibleBurnable,
        consecutive::{Consecutive, NonFungibleConsecutive},
        Base, NonFungibleToken,
    };
    const ADMIN: Symbol = symbol_short!("ADMIN");

    #[contract]
    pub struct NftConsX;

    #[contractimpl]
    impl NftConsX {
        pub fn __constructor(e: &Env, uri: String, name: String, symbol: String, admin: Address) {
            e.storage().instance().set(&ADMIN, &admin);
            Base::set_metadata(e, uri, name, symbol);
        }
        pub fn batch_mint(e: &Env, to: Address, amount: u32) -> u32 {
            let admin: Address = e.storage().instance().get(&ADMIN).unwrap();
            admin.require_auth();
            Consecutive::batch_mint(e, &to, amount)
        }
    }
    // trait defaults (the example spells the same forwarding out by hand)
    #[contractimpl(contracttrait)]
    impl NonFungibleToken for NftConsX {
        type ContractType = Consecutive;
    }
    impl NonFungibleConsecutive for NftConsX {}
    #[contractimpl(contracttrait)]
    impl NonFungibleBurnable for NftConsX {}
}

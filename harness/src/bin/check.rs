use std::path::PathBuf;
use verif_harness::engine::{run_property, run_replay, RunOpts, Tier};

fn usage() -> ! {
    eprintln!("usage: check --property <ID> --tier quick|thorough [--seed N] [--threads N] [--sub NAME] [--replay FILE] [--no-evidence]");
    std::process::exit(2)
}

fn main() {
    let args: Vec<String> = std::env::args().skip(1).collect();
    let mut prop = None;
    let mut tier = match std::env::var("VERIF_TIER").ok().as_deref() {
        Some("thorough") => Tier::Thorough,
        _ => Tier::Quick,
    };
    let mut seed: u64 = std::env::var("VERIF_SEED").ok().and_then(|s| s.trim().parse::<i64>().ok()).map(|x| x as u64).unwrap_or(0);
    let mut threads = std::env::var("VERIF_THREADS").ok().and_then(|s| s.parse().ok()).unwrap_or(16usize);
    let mut sub = None;
    let mut replay: Option<PathBuf> = None;
    let mut write_evidence = true;
    let mut fuzz_file: Option<PathBuf> = None;
    let mut i = 0;
    while i < args.len() {
        let a = args[i].as_str();
        let mut next = || {
            i += 1;
            args.get(i).cloned().unwrap_or_else(|| usage())
        };
        match a {
            "--property" => prop = Some(next()),
            "--tier" => {
                tier = match next().as_str() {
                    "quick" => Tier::Quick,
                    "thorough" => Tier::Thorough,
                    _ => usage(),
                }
            }
            "--seed" => seed = next().parse::<i64>().map(|x| x as u64).unwrap_or_else(|_| usage()),
            "--threads" => threads = next().parse().unwrap_or_else(|_| usage()),
            "--sub" => sub = Some(next()),
            "--replay" => replay = Some(PathBuf::from(next())),
            "--no-evidence" => write_evidence = false,
            "--fuzz-file" => fuzz_file = Some(PathBuf::from(next())),
            "--list-subs" => {
                let id = prop.clone().unwrap_or_else(|| usage());
                if let Some(p) = verif_harness::props::by_id(&id) {
                    for s in &p.subs {
                        println!("{}", s.name());
                    }
                }
                return;
            }
            "--list" => {
                for id in verif_harness::props::all_ids() {
                    println!("{id}");
                }
                return;
            }
            _ => usage(),
        }
        i += 1;
    }
    let Some(id) = prop else { usage() };
    let Some(p) = verif_harness::props::by_id(&id) else {
        eprintln!("unknown property {id}");
        std::process::exit(2)
    };
    verif_harness::envx::quiet_panics();
    // watchdog: a hang is inconclusive, never a violation
    let cap = std::env::var("VERIF_WATCHDOG_S").ok().and_then(|s| s.parse().ok()).unwrap_or(match tier {
        Tier::Quick => 1500u64,
        Tier::Thorough => 4 * 3600,
    });
    std::thread::spawn(move || {
        std::thread::sleep(std::time::Duration::from_secs(cap));
        println!("INCONCLUSIVE watchdog: run exceeded {cap}s");
        std::process::exit(2);
    });
    if let Some(f) = fuzz_file {
        // replay a libFuzzer artefact (bytes -> pass-through RNG -> case) against one sub-check
        let data = std::fs::read(&f).expect("read fuzz file");
        let subname = sub.clone().unwrap_or_else(|| usage());
        let s = p.subs.iter().find(|s| s.name() == subname).unwrap_or_else(|| usage());
        match s.run_bytes(&data, tier, p.id) {
            None => {
                println!("FUZZ-FILE-PASS");
                std::process::exit(0)
            }
            Some(fl) => {
                println!("DETAIL signature={} :: {}", fl.violation.signature, fl.violation.detail.replace('\n', " "));
                println!("CASE {}", fl.case);
                std::process::exit(1)
            }
        }
    }
    let code = if let Some(f) = replay {
        run_replay(&p, &f, tier)
    } else {
        run_property(&p, &RunOpts { tier, seed, threads, only_sub: sub, write_evidence })
    };
    std::process::exit(code);
}

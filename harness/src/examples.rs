//! Example contracts of /repo compiled into the harness from the working tree.
#![allow(dead_code, unused_imports, clippy::all)]

pub mod fungible_pausable {
    #[path = "/repo/examples/fungible-pausable/src/contract.rs"]
    pub mod contract;
}
pub mod fungible_allowlist {
    #[path = "/repo/examples/fungible-allowlist/src/contract.rs"]
    pub mod contract;
}
pub mod fungible_blocklist {
    #[path = "/repo/examples/fungible-blocklist/src/contract.rs"]
    pub mod contract;
}
pub mod fungible_capped {
    #[path = "/repo/examples/fungible-capped/src/contract.rs"]
    pub mod contract;
}
pub mod fungible_votes {
    #[path = "/repo/examples/fungible-votes/src/contract.rs"]
    pub mod contract;
}
pub mod fungible_vault {
    #[path = "/repo/examples/fungible-vault/src/contract.rs"]
    pub mod contract;
}

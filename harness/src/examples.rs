//! Example contracts of /repo compiled into the harness from the working tree
//! (the example crates are cdylib-only; their contract.rs files are self-contained).
#![allow(dead_code, unused_imports, clippy::all)]

pub mod fungible_pausable {
    #[path = "/repo/examples/fungible-pausable/src/contract.rs"]
    pub mod contract;
}

pub mod fungible_allowlist {
    #[path = "/repo/examples/fungible-allowlist/src/contract.rs"]
    pub mod contract;
}

pub mod fungible_blocklist {
    #[path = "/repo/examples/fungible-blocklist/src/contract.rs"]
    pub mod contract;
}

pub mod fungible_capped {
    #[path = "/repo/examples/fungible-capped/src/contract.rs"]
    pub mod contract;
}

pub mod fungible_votes {
    #[path = "/repo/examples/fungible-votes/src/contract.rs"]
    pub mod contract;
}

pub mod fungible_vault {
    #[path = "/repo/examples/fungible-vault/src/contract.rs"]
    pub mod contract;
}

pub mod fungible_merkle_airdrop {
    #[path = "/repo/examples/fungible-merkle-airdrop/src/contract.rs"]
    pub mod contract;
}

pub mod merkle_voting {
    #[path = "/repo/examples/merkle-voting/src/contract.rs"]
    pub mod contract;
}

pub mod pausable {
    #[path = "/repo/examples/pausable/src/contract.rs"]
    pub mod contract;
}

pub mod ownable {
    #[path = "/repo/examples/ownable/src/contract.rs"]
    pub mod contract;
}

pub mod nft_access_control {
    #[path = "/repo/examples/nft-access-control/src/contract.rs"]
    pub mod contract;
}

pub mod nft_sequential_minting {
    #[path = "/repo/examples/nft-sequential-minting/src/contract.rs"]
    pub mod contract;
}

pub mod nft_enumerable {
    #[path = "/repo/examples/nft-enumerable/src/contract.rs"]
    pub mod contract;
}

pub mod nft_consecutive {
    #[path = "/repo/examples/nft-consecutive/src/contract.rs"]
    pub mod contract;
}

pub mod nft_royalties {
    #[path = "/repo/examples/nft-royalties/src/contract.rs"]
    pub mod contract;
}

pub mod timelock_controller {
    #[path = "/repo/examples/timelock-controller/src/contract.rs"]
    pub mod contract;
}

pub mod fee_forwarder_permissioned {
    #[path = "/repo/examples/fee-forwarder-permissioned/src/contract.rs"]
    pub mod contract;
}

pub mod fee_forwarder_permissionless {
    #[path = "/repo/examples/fee-forwarder-permissionless/src/contract.rs"]
    pub mod contract;
}

pub mod multisig_account {
    #[path = "/repo/examples/multisig-smart-account/account/src/contract.rs"]
    pub mod contract;
}

pub mod threshold_policy {
    #[path = "/repo/examples/multisig-smart-account/threshold-policy/src/contract.rs"]
    pub mod contract;
}

pub mod spending_limit_policy {
    #[path = "/repo/examples/multisig-smart-account/spending-limit-policy/src/contract.rs"]
    pub mod contract;
}

pub mod ed25519_verifier {
    #[path = "/repo/examples/multisig-smart-account/ed25519-verifier/src/contract.rs"]
    pub mod contract;
}

pub mod webauthn_verifier {
    #[path = "/repo/examples/multisig-smart-account/webauthn-verifier/src/contract.rs"]
    pub mod contract;
}

pub mod upgradeable_v1 {
    #[path = "/repo/examples/upgradeable/v1/src/contract.rs"]
    pub mod contract;
}

pub mod upgradeable_v2 {
    #[path = "/repo/examples/upgradeable/v2/src/contract.rs"]
    pub mod contract;
}

pub mod upgradeable_upgrader {
    #[path = "/repo/examples/upgradeable/upgrader/src/contract.rs"]
    pub mod contract;
}

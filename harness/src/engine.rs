//! Engine: seeded proptest runners on 16 worker threads, shrinking, replay files,
//! known-finding handling, evidence writing.  See DESIGN.md §2.4–2.6.

use proptest::strategy::{BoxedStrategy, Strategy, ValueTree};
use proptest::test_runner::{Config, RngAlgorithm, TestCaseError, TestError, TestRng, TestRunner};
use serde::de::DeserializeOwned;
use serde::Serialize;
use serde_json::{json, Value};
use std::collections::{BTreeMap, BTreeSet};
use std::fmt::Debug;
use std::hash::{Hash, Hasher};
use std::panic::{catch_unwind, AssertUnwindSafe};
use std::path::{Path, PathBuf};
use std::sync::atomic::{AtomicBool, Ordering};
use std::sync::Mutex;
use std::time::Instant;

/// root of the verification tree (evidence/, replays/, KNOWN_FINDINGS.txt); overridable for scratch copies
pub fn verif_dir() -> PathBuf {
    PathBuf::from(std::env::var("VERIF_HOME").unwrap_or_else(|_| "/verif".to_string()))
}

#[derive(Clone, Copy, PartialEq, Eq, Debug)]
pub enum Tier {
    Quick,
    Thorough,
}
impl Tier {
    pub fn name(self) -> &'static str {
        match self {
            Tier::Quick => "quick",
            Tier::Thorough => "thorough",
        }
    }
    /// pick by tier
    pub fn pick<T>(self, q: T, t: T) -> T {
        match self {
            Tier::Quick => q,
            Tier::Thorough => t,
        }
    }
}

#[derive(Clone, Debug)]
pub struct Violation {
    /// `<property>/<entry point or relation>/<failed clause>[/<class>]`
    pub signature: String,
    pub detail: String,
}
pub type R = Result<(), Violation>;

pub fn violation(sig: impl Into<String>, detail: impl Into<String>) -> Violation {
    Violation { signature: sig.into(), detail: detail.into() }
}

/// `ensure!(cond, "C01/transfer/supply-changed", "fmt {}", x)`
#[macro_export]
macro_rules! ensure {
    ($cond:expr, $sig:expr, $($fmt:tt)+) => {
        if !($cond) {
            return Err($crate::engine::violation($sig, format!($($fmt)+)));
        }
    };
}
/// `bail!("sig", "fmt", ..)`
#[macro_export]
macro_rules! bail {
    ($sig:expr, $($fmt:tt)+) => {
        return Err($crate::engine::violation($sig, format!($($fmt)+)))
    };
}

/// Per-case collector handed to the interpreter.
#[derive(Default, Debug)]
pub struct Ctx {
    pub classes: BTreeMap<String, u64>,
    pub nontrivial: bool,
    pub ops: u64,
    pub ops_ok: u64,
    pub tier_thorough: bool,
}
impl Ctx {
    pub fn class(&mut self, name: &str) {
        *self.classes.entry(name.to_string()).or_insert(0) += 1;
    }
    pub fn class_n(&mut self, name: &str, n: u64) {
        *self.classes.entry(name.to_string()).or_insert(0) += n;
    }
    pub fn seen(&self, name: &str) -> u64 {
        self.classes.get(name).copied().unwrap_or(0)
    }
    pub fn op(&mut self, ok: bool) {
        self.ops += 1;
        if ok {
            self.ops_ok += 1;
        }
    }
    pub fn tier(&self) -> Tier {
        if self.tier_thorough {
            Tier::Thorough
        } else {
            Tier::Quick
        }
    }
}

// ---------------------------------------------------------------- known findings

#[derive(Clone, Debug)]
pub struct Known {
    pub property: String,
    /// glob with a single optional trailing `*`
    pub signature: String,
    pub replay: Option<String>,
    pub text: String,
}
impl Known {
    pub fn matches(&self, sig: &str) -> bool {
        if let Some(p) = self.signature.strip_suffix('*') {
            sig.starts_with(p)
        } else {
            sig == self.signature
        }
    }
}

/// Parses KNOWN_FINDINGS.txt.  Lines:
/// `known: property=C04 signature=<sig> replay=<file under replays/known> <free text>`
/// `fixed: property=C09 <commit> <what failed>`  (suppresses nothing)
pub fn load_known(property: &str) -> Vec<Known> {
    let p = verif_dir().join("KNOWN_FINDINGS.txt");
    let Ok(txt) = std::fs::read_to_string(p) else { return vec![] };
    let mut out = vec![];
    for line in txt.lines() {
        let line = line.trim();
        let Some(rest) = line.strip_prefix("known:") else { continue };
        let mut prop = String::new();
        let mut sig = String::new();
        let mut replay = None;
        let mut text = vec![];
        for tok in rest.split_whitespace() {
            if let Some(v) = tok.strip_prefix("property=") {
                prop = v.to_string();
            } else if let Some(v) = tok.strip_prefix("signature=") {
                sig = v.to_string();
            } else if let Some(v) = tok.strip_prefix("replay=") {
                replay = Some(v.to_string());
            } else {
                text.push(tok);
            }
        }
        if prop == property && !sig.is_empty() {
            out.push(Known { property: prop, signature: sig, replay, text: text.join(" ") });
        }
    }
    out
}

// ---------------------------------------------------------------- sub-checks

pub struct Shared<'a> {
    pub stop: &'a AtomicBool,
    pub known: &'a [Known],
    pub tier: Tier,
    /// multiplier applied to the case counts of generated sub-checks (Property.scale, VERIF_CASE_SCALE)
    pub scale: f64,
}

#[derive(Default)]
pub struct WorkerResult {
    pub evaluations: u64,
    pub nontrivial: BTreeSet<u64>,
    pub classes: BTreeMap<String, u64>,
    pub samples: Vec<Value>,
    pub ops: u64,
    pub ops_ok: u64,
    pub excluded_known: BTreeMap<String, u64>,
    pub failure: Option<Failure>,
    pub internal_error: Option<String>,
}
#[derive(Clone, Debug)]
pub struct Failure {
    pub sub: String,
    pub case: Value,
    pub violation: Violation,
    pub shrunk: bool,
}

impl WorkerResult {
    pub fn absorb_ctx(&mut self, ctx: &Ctx) {
        for (k, v) in &ctx.classes {
            *self.classes.entry(k.clone()).or_insert(0) += v;
        }
        self.ops += ctx.ops;
        self.ops_ok += ctx.ops_ok;
    }
    pub fn merge(&mut self, o: WorkerResult) {
        self.evaluations += o.evaluations;
        self.nontrivial.extend(o.nontrivial);
        for (k, v) in o.classes {
            *self.classes.entry(k).or_insert(0) += v;
        }
        for s in o.samples {
            if self.samples.len() < 4 {
                self.samples.push(s);
            }
        }
        self.ops += o.ops;
        self.ops_ok += o.ops_ok;
        for (k, v) in o.excluded_known {
            *self.excluded_known.entry(k).or_insert(0) += v;
        }
        if self.failure.is_none() {
            self.failure = o.failure;
        }
        if self.internal_error.is_none() {
            self.internal_error = o.internal_error;
        }
    }
}

pub trait SubCheck: Send + Sync {
    fn name(&self) -> &str;
    fn total_cases(&self, tier: Tier) -> u64;
    fn run_worker(&self, worker: usize, n_workers: usize, seed: u64, prop: &str, sh: &Shared) -> WorkerResult;
    /// Run one serialised case, without proptest.
    fn replay(&self, case: &Value, tier: Tier) -> Result<(R, Ctx), String>;
    /// Coverage-guided fuzzing entry: the bytes are the random stream of the strategy
    /// (proptest's pass-through RNG).  Returns the failing case, if any.
    fn run_bytes(&self, _data: &[u8], _tier: Tier, _prop: &str) -> Option<Failure> {
        None
    }
}

/// Generated sub-check: proptest strategy + interpreter.
pub struct Gen<C> {
    pub name: &'static str,
    pub quick: u32,
    pub thorough: u32,
    pub strategy: fn(Tier) -> BoxedStrategy<C>,
    pub run: fn(&C, &mut Ctx) -> R,
    pub max_shrink_iters: u32,
}

pub fn gen_sub<C>(
    name: &'static str,
    quick: u32,
    thorough: u32,
    strategy: fn(Tier) -> BoxedStrategy<C>,
    run: fn(&C, &mut Ctx) -> R,
) -> Box<dyn SubCheck>
where
    C: Serialize + DeserializeOwned + Debug + Clone + 'static,
{
    Box::new(Gen { name, quick, thorough, strategy, run, max_shrink_iters: 500 })
}

pub fn hash_str(s: &str) -> u64 {
    let mut h = std::collections::hash_map::DefaultHasher::new();
    s.hash(&mut h);
    h.finish()
}

pub fn splitmix64(x: &mut u64) -> u64 {
    *x = x.wrapping_add(0x9E3779B97F4A7C15);
    let mut z = *x;
    z = (z ^ (z >> 30)).wrapping_mul(0xBF58476D1CE4E5B9);
    z = (z ^ (z >> 27)).wrapping_mul(0x94D049BB133111EB);
    z ^ (z >> 31)
}

pub fn seed_bytes(seed: u64, prop: &str, sub: &str, worker: usize) -> [u8; 32] {
    let mut s = seed ^ hash_str(prop).rotate_left(17) ^ hash_str(sub).rotate_left(41) ^ ((worker as u64) << 52);
    let mut out = [0u8; 32];
    for i in 0..4 {
        out[i * 8..i * 8 + 8].copy_from_slice(&splitmix64(&mut s).to_le_bytes());
    }
    out
}

fn panic_msg(p: Box<dyn std::any::Any + Send>) -> String {
    if let Some(s) = p.downcast_ref::<&str>() {
        s.to_string()
    } else if let Some(s) = p.downcast_ref::<String>() {
        s.clone()
    } else {
        "<non-string panic>".into()
    }
}

/// Runs the interpreter once; a panic escaping the interpreter is reported as a
/// violation with signature `<prop>/harness-panic` (on the unchanged tree the
/// interpreters never panic; see DESIGN §2.4).
pub fn run_guarded<C>(run: fn(&C, &mut Ctx) -> R, case: &C, ctx: &mut Ctx, prop: &str) -> R {
    match catch_unwind(AssertUnwindSafe(|| run(case, ctx))) {
        Ok(r) => r,
        Err(p) => {
            let m = panic_msg(p);
            let short: String = m.chars().take(300).collect();
            Err(violation(format!("{prop}/harness-panic"), short))
        }
    }
}

fn sample_value(v: &Value) -> Value {
    let s = v.to_string();
    if s.len() > 6000 {
        json!({"truncated_case_json_prefix": s.chars().take(6000).collect::<String>(), "full_len": s.len()})
    } else {
        v.clone()
    }
}

impl<C> SubCheck for Gen<C>
where
    C: Serialize + DeserializeOwned + Debug + Clone + 'static,
{
    fn name(&self) -> &str {
        self.name
    }
    fn total_cases(&self, tier: Tier) -> u64 {
        tier.pick(self.quick, self.thorough) as u64
    }
    fn run_worker(&self, worker: usize, n_workers: usize, seed: u64, prop: &str, sh: &Shared) -> WorkerResult {
        let total = ((self.total_cases(sh.tier) as f64) * sh.scale).round().max(1.0) as u64;
        let share = (total / n_workers as u64 + if (worker as u64) < total % n_workers as u64 { 1 } else { 0 }) as u32;
        let mut res = WorkerResult::default();
        if share == 0 {
            return res;
        }
        let cfg = Config {
            cases: share,
            failure_persistence: None,
            max_shrink_iters: self.max_shrink_iters,
            max_shrink_time: 0,
            max_local_rejects: 1 << 20,
            max_global_rejects: 1 << 20,
            verbose: 0,
            fork: false,
            timeout: 0,
            source_file: None,
            ..Config::default()
        };
        let rng = TestRng::from_seed(RngAlgorithm::ChaCha, &seed_bytes(seed, prop, self.name, worker));
        let mut runner = TestRunner::new_with_rng(cfg, rng);
        let strat = (self.strategy)(sh.tier);
        let res_cell = Mutex::new(std::mem::take(&mut res));
        let failed = AtomicBool::new(false);
        let run = self.run;
        let thorough = sh.tier == Tier::Thorough;
        let outcome = runner.run(&strat, |case| {
            if failed.load(Ordering::Relaxed) {
                // shrinking phase: only pass/fail matters
                let mut ctx = Ctx { tier_thorough: thorough, ..Default::default() };
                return match run_guarded(run, &case, &mut ctx, prop) {
                    Ok(()) => Ok(()),
                    Err(v) => {
                        if sh.known.iter().any(|k| k.matches(&v.signature)) {
                            Ok(())
                        } else {
                            Err(TestCaseError::fail(v.signature))
                        }
                    }
                };
            }
            if sh.stop.load(Ordering::Relaxed) {
                return Ok(());
            }
            let mut ctx = Ctx { tier_thorough: thorough, ..Default::default() };
            let r = run_guarded(run, &case, &mut ctx, prop);
            let mut res = res_cell.lock().unwrap();
            res.evaluations += 1;
            res.absorb_ctx(&ctx);
            if ctx.nontrivial {
                let v = serde_json::to_value(&case).expect("case must serialise to JSON (use gen::i128_str for i128 fields)");
                let h = hash_str(&v.to_string());
                if res.nontrivial.insert(h) && res.samples.len() < 2 {
                    res.samples.push(json!({"sub": self.name, "case": sample_value(&v)}));
                }
            }
            match r {
                Ok(()) => Ok(()),
                Err(v) => {
                    if let Some(k) = sh.known.iter().find(|k| k.matches(&v.signature)) {
                        *res.excluded_known.entry(k.signature.clone()).or_insert(0) += 1;
                        Ok(())
                    } else {
                        failed.store(true, Ordering::Relaxed);
                        Err(TestCaseError::fail(v.signature))
                    }
                }
            }
        });
        let mut res = res_cell.into_inner().unwrap();
        match outcome {
            Ok(()) => {}
            Err(TestError::Fail(_, case)) => {
                sh.stop.store(true, Ordering::Relaxed);
                let mut ctx = Ctx { tier_thorough: thorough, ..Default::default() };
                let v = match run_guarded(run, &case, &mut ctx, prop) {
                    Err(v) => v,
                    Ok(()) => violation(format!("{prop}/non-deterministic"), "shrunk case passed when re-run"),
                };
                res.failure = Some(Failure {
                    sub: self.name.to_string(),
                    case: serde_json::to_value(&case).expect("case must serialise to JSON"),
                    violation: v,
                    shrunk: true,
                });
            }
            Err(TestError::Abort(reason)) => {
                res.internal_error = Some(format!("proptest aborted in sub {}: {}", self.name, reason));
            }
        }
        res
    }
    fn run_bytes(&self, data: &[u8], tier: Tier, prop: &str) -> Option<Failure> {
        // the fuzzer's bytes come first; a pseudo-random tail derived from them follows, because rand 0.9's
        // uniform sampling rejects forever on the all-zero stream proptest's pass-through RNG yields once exhausted
        let mut buf = data.to_vec();
        let mut st = hash_str(&format!("{:?}", &data[..data.len().min(64)])) ^ data.len() as u64;
        let tail: usize = std::env::var("VERIF_FUZZ_TAIL").ok().and_then(|s| s.parse().ok()).unwrap_or(48 << 10);
        while buf.len() < data.len() + tail {
            buf.extend_from_slice(&splitmix64(&mut st).to_le_bytes());
        }
        let rng = TestRng::from_seed(RngAlgorithm::PassThrough, &buf);
        if std::env::var("VERIF_DEBUG_RNG").is_ok() {
            use rand_core::RngCore;
            let mut c = rng.clone();
            let mut n = 0u64;
            let mut zeros = 0u64;
            for _ in 0..10000 {
                let v = c.next_u64();
                n += 1;
                if v == 0 {
                    zeros += 1;
                }
            }
            eprintln!("debug rng: buf len {}, drew {n} u64, {zeros} zero", buf.len());
        }
        let mut runner = TestRunner::new_with_rng(Config { failure_persistence: None, ..Config::default() }, rng);
        let strat = (self.strategy)(tier);
        let tree = strat.new_tree(&mut runner).ok()?;
        let case = tree.current();
        let mut ctx = Ctx { tier_thorough: tier == Tier::Thorough, ..Default::default() };
        match run_guarded(self.run, &case, &mut ctx, prop) {
            Ok(()) => None,
            Err(v) => Some(Failure {
                sub: self.name.to_string(),
                case: serde_json::to_value(&case).expect("case must serialise to JSON"),
                violation: v,
                shrunk: false,
            }),
        }
    }
    fn replay(&self, case: &Value, tier: Tier) -> Result<(R, Ctx), String> {
        let c: C = serde_json::from_value(case.clone()).map_err(|e| format!("cannot decode case for sub {}: {e}", self.name))?;
        let mut ctx = Ctx { tier_thorough: tier == Tier::Thorough, ..Default::default() };
        let r = run_guarded(self.run, &c, &mut ctx, "replay");
        Ok((r, ctx))
    }
}

/// Deterministic sub-check: the work is a fixed list of `n(tier)` slabs, slab `i`
/// is run by worker `i % n_workers`.  Used for exhaustive boundary lattices.
pub struct Fixed {
    pub name: &'static str,
    pub slabs: fn(Tier) -> u64,
    /// runs slab i; returns number of evaluations and number of non-trivial ones (with hashes)
    pub run: fn(Tier, u64, &mut Ctx, &mut FixedOut) -> R,
}
#[derive(Default)]
pub struct FixedOut {
    pub evaluations: u64,
    pub nontrivial: Vec<u64>,
    pub samples: Vec<Value>,
    /// description of the failing input, set before returning Err
    pub failing: Option<Value>,
}

impl SubCheck for Fixed {
    fn name(&self) -> &str {
        self.name
    }
    fn total_cases(&self, tier: Tier) -> u64 {
        (self.slabs)(tier)
    }
    fn run_worker(&self, worker: usize, n_workers: usize, _seed: u64, prop: &str, sh: &Shared) -> WorkerResult {
        let mut res = WorkerResult::default();
        let n = (self.slabs)(sh.tier);
        let mut i = worker as u64;
        while i < n {
            if sh.stop.load(Ordering::Relaxed) {
                break;
            }
            let mut ctx = Ctx { tier_thorough: sh.tier == Tier::Thorough, ..Default::default() };
            let mut out = FixedOut::default();
            let tier = sh.tier;
            let run = self.run;
            let r = match catch_unwind(AssertUnwindSafe(|| run(tier, i, &mut ctx, &mut out))) {
                Ok(r) => r,
                Err(p) => Err(violation(format!("{prop}/harness-panic"), panic_msg(p))),
            };
            res.evaluations += out.evaluations;
            res.nontrivial.extend(out.nontrivial.iter().copied());
            for s in out.samples.drain(..) {
                if res.samples.len() < 2 {
                    res.samples.push(json!({"sub": self.name, "case": s}));
                }
            }
            res.absorb_ctx(&ctx);
            if let Err(v) = r {
                if let Some(k) = sh.known.iter().find(|k| k.matches(&v.signature)) {
                    *res.excluded_known.entry(k.signature.clone()).or_insert(0) += 1;
                } else {
                    sh.stop.store(true, Ordering::Relaxed);
                    res.failure = Some(Failure {
                        sub: self.name.to_string(),
                        case: json!({"slab": i, "input": out.failing}),
                        violation: v,
                        shrunk: false,
                    });
                    break;
                }
            }
            i += n_workers as u64;
        }
        res
    }
    fn replay(&self, case: &Value, tier: Tier) -> Result<(R, Ctx), String> {
        let slab = case.get("slab").and_then(|v| v.as_u64()).ok_or("fixed replay needs slab")?;
        let mut ctx = Ctx { tier_thorough: tier == Tier::Thorough, ..Default::default() };
        let mut out = FixedOut::default();
        let run = self.run;
        let r = match catch_unwind(AssertUnwindSafe(|| run(tier, slab, &mut ctx, &mut out))) {
            Ok(r) => r,
            Err(p) => Err(violation("replay/harness-panic", panic_msg(p))),
        };
        Ok((r, ctx))
    }
}

// ---------------------------------------------------------------- property

pub struct Property {
    pub id: &'static str,
    pub rule: &'static str,
    pub subs: Vec<Box<dyn SubCheck>>,
    /// vacuity guard: (class name, minimum count in quick, minimum in thorough)
    pub floors: Vec<(&'static str, u64, u64)>,
    pub assumptions: Vec<&'static str>,
}

/// Case-count multipliers (quick, thorough) per property, applied to every generated sub-check and to the
/// floors.  The modules state their base counts; the multipliers were set after measuring the quick tier on
/// 16 idle cores so that each quick check does 15-45 s of fixed work (DESIGN §9.4).
pub fn case_scale(id: &str, tier: Tier) -> f64 {
    let (q, t) = match id {
        "C01" => (3.0, 1.5),
        "C02" => (4.0, 2.0),
        "C03" => (40.0, 20.0),
        "C04" => (30.0, 15.0),
        "C05" => (12.0, 6.0),
        "C06" => (9.0, 4.0),
        "C07" => (100.0, 50.0),
        "C08" => (16.0, 8.0),
        "C09" => (24.0, 12.0),
        "C10" => (2.0, 1.0),
        "C11" => (20.0, 10.0),
        "C12" => (4.0, 2.0),
        "C13" => (8.0, 4.0),
        "C14" => (15.0, 7.0),
        "C15" => (16.0, 8.0),
        "C16" => (8.0, 4.0),
        "C17" => (40.0, 20.0),
        "C18" => (6.0, 3.0),
        "C19" => (12.0, 6.0),
        "C20" => (6.0, 3.0),
        _ => (1.0, 1.0),
    };
    let base = tier.pick(q, t);
    let env = std::env::var("VERIF_CASE_SCALE").ok().and_then(|s| s.parse::<f64>().ok()).unwrap_or(1.0);
    base * env
}

pub struct RunOpts {
    pub tier: Tier,
    pub seed: u64,
    pub threads: usize,
    pub only_sub: Option<String>,
    /// scale factor for case counts (testing only)
    pub write_evidence: bool,
}

fn replay_dir(kind: &str) -> PathBuf {
    verif_dir().join("replays").join(kind)
}

#[derive(serde::Serialize, serde::Deserialize, Debug)]
pub struct ReplayFile {
    pub property: String,
    pub sub: String,
    pub signature: String,
    pub detail: String,
    pub case: Value,
}

pub fn write_replay(prop: &str, seed: u64, f: &Failure) -> PathBuf {
    let dir = replay_dir("found");
    let _ = std::fs::create_dir_all(&dir);
    let rf = ReplayFile {
        property: prop.to_string(),
        sub: f.sub.clone(),
        signature: f.violation.signature.clone(),
        detail: f.violation.detail.clone(),
        case: f.case.clone(),
    };
    let txt = serde_json::to_string_pretty(&rf).unwrap();
    let h = hash_str(&txt);
    let p = dir.join(format!("{}-{}-s{}-{:08x}.json", prop, f.sub, seed, h as u32));
    let _ = std::fs::write(&p, txt);
    p
}

pub enum ReplayOutcome {
    Pass,
    Fail(Violation),
}

pub fn replay_file(prop: &Property, path: &Path, tier: Tier) -> Result<(ReplayFile, ReplayOutcome), String> {
    let txt = std::fs::read_to_string(path).map_err(|e| format!("{}: {e}", path.display()))?;
    let rf: ReplayFile = serde_json::from_str(&txt).map_err(|e| format!("{}: {e}", path.display()))?;
    if rf.property != prop.id {
        return Err(format!("{} is a replay for {}, not {}", path.display(), rf.property, prop.id));
    }
    let sub = prop.subs.iter().find(|s| s.name() == rf.sub).ok_or_else(|| format!("unknown sub {}", rf.sub))?;
    let (r, _ctx) = sub.replay(&rf.case, tier)?;
    Ok((
        rf,
        match r {
            Ok(()) => ReplayOutcome::Pass,
            Err(mut v) => {
                v.signature = v.signature.replacen("replay/", &format!("{}/", prop.id), 1);
                ReplayOutcome::Fail(v)
            }
        },
    ))
}

fn list_json(dir: &Path, prop: &str) -> Vec<PathBuf> {
    let mut v = vec![];
    if let Ok(rd) = std::fs::read_dir(dir) {
        for e in rd.flatten() {
            let p = e.path();
            let name = p.file_name().and_then(|s| s.to_str()).unwrap_or("").to_string();
            if name.ends_with(".json") && name.starts_with(prop) {
                v.push(p);
            }
        }
    }
    v.sort();
    v
}

/// Returns the process exit code.
pub fn run_property(prop: &Property, opts: &RunOpts) -> i32 {
    let t0 = Instant::now();
    let known = load_known(prop.id);
    let mut violations: Vec<(Violation, PathBuf)> = vec![];
    let mut known_lines = vec![];
    let mut notices = vec![];

    // 1. known-finding replays (strict: not excluded)
    for k in &known {
        if let Some(rp) = &k.replay {
            let path = replay_dir("known").join(rp);
            match replay_file(prop, &path, opts.tier) {
                Ok((_, ReplayOutcome::Fail(v))) if k.matches(&v.signature) => {
                    known_lines.push(format!("KNOWN-FINDING: property={} {} {}", prop.id, v.signature, k.text));
                }
                Ok((_, ReplayOutcome::Fail(v))) => {
                    // a different violation on the known replay: report it
                    violations.push((v, path.clone()));
                }
                Ok((_, ReplayOutcome::Pass)) => {
                    notices.push(format!("NOTICE: known finding {} no longer reproduces ({})", k.signature, path.display()));
                }
                Err(e) => notices.push(format!("NOTICE: cannot replay known finding {}: {}", k.signature, e)),
            }
        } else {
            known_lines.push(format!("KNOWN-FINDING: property={} {} {}", prop.id, k.signature, k.text));
        }
    }
    // 2. regression corpus
    let mut replayed = 0u64;
    for path in list_json(&replay_dir("regress"), prop.id) {
        match replay_file(prop, &path, opts.tier) {
            Ok((_, ReplayOutcome::Pass)) => replayed += 1,
            Ok((_, ReplayOutcome::Fail(v))) => {
                replayed += 1;
                if !known.iter().any(|k| k.matches(&v.signature)) {
                    violations.push((v, path.clone()));
                }
            }
            Err(e) => notices.push(format!("NOTICE: regression replay skipped: {e}")),
        }
    }

    // 3. generated search
    let stop = AtomicBool::new(!violations.is_empty());
    let scale = case_scale(prop.id, opts.tier);
    let sh = Shared { stop: &stop, known: &known, tier: opts.tier, scale };
    let mut total = WorkerResult::default();
    let mut per_sub: BTreeMap<String, Value> = BTreeMap::new();
    for sub in &prop.subs {
        if let Some(o) = &opts.only_sub {
            if o != sub.name() {
                continue;
            }
        }
        if stop.load(Ordering::Relaxed) {
            break;
        }
        let ts = Instant::now();
        let n = opts.threads.max(1);
        let mut results: Vec<WorkerResult> = vec![];
        std::thread::scope(|sc| {
            let mut hs = vec![];
            for w in 0..n {
                let sh = &sh;
                let sub = &**sub;
                let id = prop.id;
                let seed = opts.seed;
                let h = std::thread::Builder::new()
                    .stack_size(256 << 20)
                    .spawn_scoped(sc, move || sub.run_worker(w, n, seed, id, sh))
                    .expect("spawn");
                hs.push(h);
            }
            for h in hs {
                match h.join() {
                    Ok(r) => results.push(r),
                    Err(p) => {
                        let mut r = WorkerResult::default();
                        r.internal_error = Some(format!("worker thread panicked: {}", panic_msg(p)));
                        results.push(r);
                    }
                }
            }
        });
        let mut sub_total = WorkerResult::default();
        for r in results {
            sub_total.merge(r);
        }
        per_sub.insert(
            sub.name().to_string(),
            json!({
                "evaluations": sub_total.evaluations,
                "distinct_nontrivial": sub_total.nontrivial.len(),
                "wall_s": ts.elapsed().as_secs_f64(),
            }),
        );
        total.merge(sub_total);
    }
    if let Some(f) = &total.failure {
        let p = write_replay(prop.id, opts.seed, f);
        violations.push((f.violation.clone(), p));
    }

    // 4. vacuity guard
    let mut starved = vec![];
    // VERIF_CASE_SCALE < 1 (mutation campaigns, coverage measurements) runs fewer cases than the floors were measured for
    let scaled_down = std::env::var("VERIF_CASE_SCALE").ok().and_then(|s| s.parse::<f64>().ok()).map(|x| x < 1.0).unwrap_or(false);
    if violations.is_empty() && opts.only_sub.is_none() && total.internal_error.is_none() && !scaled_down {
        for (class, q, t) in &prop.floors {
            let min = opts.tier.pick(*q, *t);
            let got = total.classes.get(*class).copied().unwrap_or(0);
            if got < min {
                starved.push(format!("{class}: {got} < {min}"));
            }
        }
    }

    // 5. evidence
    let wall = t0.elapsed().as_secs_f64();
    if opts.write_evidence {
        let mut samples = total.samples.clone();
        if samples.is_empty() {
            samples.push(json!({"note": "no non-trivial case was generated in this run"}));
        }
        let ev = json!({
            "property_id": prop.id,
            "tier": opts.tier.name(),
            "seed": opts.seed,
            "level": "exploration",
            "coverage": {
                "evaluations": total.evaluations,
                "distinct_nontrivial": total.nontrivial.len(),
                "rule": prop.rule,
                "samples": samples,
                "ops_executed": total.ops,
                "ops_succeeded": total.ops_ok,
                "classes": total.classes,
                "per_sub": per_sub,
                "replayed_regressions": replayed,
                "excluded_known": total.excluded_known,
                "known_findings_listed": known.len(),
                "starved_classes": starved,
                "exhaustive": false,
                "threads": opts.threads,
                "case_scale": scale,
            },
            "assumptions": prop.assumptions,
            "wall_s": wall,
            "violations": violations.len(),
        });
        let dir = verif_dir().join("evidence");
        let _ = std::fs::create_dir_all(&dir);
        let _ = std::fs::write(dir.join(format!("{}.json", prop.id)), serde_json::to_string_pretty(&ev).unwrap());
    }

    for l in &notices {
        println!("{l}");
    }
    for l in &known_lines {
        println!("{l}");
    }
    println!(
        "{} {} seed={} evaluations={} distinct_nontrivial={} ops={} wall={:.1}s",
        prop.id,
        opts.tier.name(),
        opts.seed,
        total.evaluations,
        total.nontrivial.len(),
        total.ops,
        wall
    );
    if !violations.is_empty() {
        for (v, p) in &violations {
            println!("DETAIL signature={} :: {}", v.signature, v.detail.replace('\n', " "));
            println!("VIOLATION property={} replay={}", prop.id, p.display());
        }
        return 1;
    }
    if let Some(e) = &total.internal_error {
        println!("INCONCLUSIVE internal-error: {e}");
        return 2;
    }
    if !starved.is_empty() {
        println!("INCONCLUSIVE generator-starved: {}", starved.join("; "));
        return 2;
    }
    println!("OK property={} held on everything explored", prop.id);
    0
}

/// `--replay <file>`: exit 1 + VIOLATION if the case still fails (known findings
/// print KNOWN-FINDING and exit 0).
pub fn run_replay(prop: &Property, path: &Path, tier: Tier) -> i32 {
    let known = load_known(prop.id);
    match replay_file(prop, path, tier) {
        Ok((_, ReplayOutcome::Pass)) => {
            println!("REPLAY-PASS property={} file={}", prop.id, path.display());
            0
        }
        Ok((_, ReplayOutcome::Fail(v))) => {
            println!("DETAIL signature={} :: {}", v.signature, v.detail.replace('\n', " "));
            if let Some(k) = known.iter().find(|k| k.matches(&v.signature)) {
                println!("KNOWN-FINDING: property={} {} {}", prop.id, v.signature, k.text);
                0
            } else {
                println!("VIOLATION property={} replay={}", prop.id, path.display());
                1
            }
        }
        Err(e) => {
            println!("INCONCLUSIVE replay-error: {e}");
            2
        }
    }
}

/// helper for strategies: draw one value (used by tests / sampling tools)
pub fn sample_one<C: Debug>(s: &BoxedStrategy<C>, seed: u64) -> C {
    let rng = TestRng::from_seed(RngAlgorithm::ChaCha, &seed_bytes(seed, "sample", "one", 0));
    let mut r = TestRunner::new_with_rng(Config::default(), rng);
    s.new_tree(&mut r).unwrap().current()
}

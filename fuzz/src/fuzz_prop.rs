//! Generic coverage-guided supplement (libFuzzer on the STABLE toolchain with sancov flags):
//! the fuzzer's bytes are fed to proptest's pass-through RNG, so every property's own
//! strategy and oracle are reused.  Selected by env VERIF_FUZZ_PROP / VERIF_FUZZ_SUB / VERIF_FUZZ_TIER.
#![no_main]
use libfuzzer_sys::fuzz_target;
use std::sync::OnceLock;
use verif_harness::engine::{load_known, write_replay, Known, Property, Tier};

struct St {
    prop: Property,
    sub: usize,
    tier: Tier,
    known: Vec<Known>,
    seed: u64,
}
static ST: OnceLock<St> = OnceLock::new();

fn st() -> &'static St {
    ST.get_or_init(|| {
        verif_harness::envx::quiet_panics();
        let id = std::env::var("VERIF_FUZZ_PROP").expect("VERIF_FUZZ_PROP");
        let prop = verif_harness::props::by_id(&id).expect("unknown property");
        let subname = std::env::var("VERIF_FUZZ_SUB").expect("VERIF_FUZZ_SUB");
        let sub = prop.subs.iter().position(|s| s.name() == subname).expect("unknown sub");
        let tier = if std::env::var("VERIF_FUZZ_TIER").ok().as_deref() == Some("thorough") { Tier::Thorough } else { Tier::Quick };
        let known = load_known(&id);
        let seed = std::env::var("VERIF_SEED").ok().and_then(|s| s.parse::<i64>().ok()).unwrap_or(0) as u64;
        St { prop, sub, tier, known, seed }
    })
}

fuzz_target!(|data: &[u8]| {
    let s = st();
    if data.len() < 8 {
        return;
    }
    if let Some(f) = s.prop.subs[s.sub].run_bytes(data, s.tier, s.prop.id) {
        if s.known.iter().any(|k| k.matches(&f.violation.signature)) {
            return;
        }
        let p = write_replay(s.prop.id, s.seed, &f);
        println!("DETAIL signature={} :: {}", f.violation.signature, f.violation.detail.replace('\n', " "));
        println!("FUZZ-VIOLATION property={} replay={}", s.prop.id, p.display());
        std::process::abort();
    }
});
